"""C02 — responses reach exactly their request; every request completes once.

Reference model of the client's matching layer replayed over the wire log: a request (token t,
endpoint a) is completed by the first response datagram delivered from a with token t while it is
outstanding, or failed by a Reset for its message ID, the give-up of an exchange with a, a reported
transport error for a, or shutdown. The model's outcome and instant for every request are compared
with the completion record taken at the client boundary; reactions to unmatched / matched CON
responses are checked on the wire."""

import random

ID = "C02"
LEVEL = "exploration"
TECHNIQUE = "runtime monitoring on a virtual-time simulated network with seeded loss/duplication/delay/reordering, a forger (sniffed, retired and guessed tokens; wrong-IP / wrong-port sources), ICMP errors and Resets; oracle = reference matching model replayed offline over the wire log vs. client-boundary completion records (unique payload ids make results identify their datagram)"
LEVEL_TEXT = "Each generated history (2-12 concurrent requests to 2-4 raw servers, every per-datagram network decision drawn from a seeded policy, forged datagrams of every class) is replayed through a reference model; every request's outcome, instant and result datagram, token uniqueness and every RST/ACK reaction must agree."
LEVEL_NOTE = "Trusted: harness/simnet.py (wire log, synchronous-cause attribution), refcodec, the matching model in checks/c02.py. A forged response from the true source address with a sniffed token is treated as genuine (indistinguishable for any implementation). A NON request whose responses are all lost is only required to complete at shutdown."
RULE = (
    "one case = one history: requests (server, CON/NON, API flavour, server behaviour in {piggyback, separate CON/NON, late, never, Reset, ICMP}), network policy (drop/dup/delay probabilities), forged datagrams by class. "
    "Non-trivial = at least one fault, forged datagram or concurrent neighbour affected the history; distinct = hash of the sequence of (event kind, actor, message class) of the wire history"
)
ASSUMPTIONS = ["default TransportTuning (ACK_TIMEOUT 2, MAX_RETRANSMIT 4) for all requests", "forged tokens are only taken from datagrams already seen on the wire"]
REQUIRED_MONITORS = {"request_outcome": 500, "result_is_first_matching": 300, "unmatched_con_rst": 50, "matched_con_ack": 30, "token_uniqueness": 100, "forged_wrong_source_not_delivered": 50, "failure_explained": 100, "token_boundary_crossed": 20, "retired_token_after_failed_observe_request": 4, "retired_token_after_cancelled_blockwise_request": 4, "bystander": 16}

SERVERS = [("10.0.0.1", 5683), ("10.0.0.1", 5684), ("10.0.0.3", 5683), ("10.0.0.4", 7777)]
BEHAVIOURS = ["piggy", "piggy", "sep-con", "sep-non", "late", "never", "rst", "icmp"]
APIS = ["raw", "raw", "default", "observe0"]


def plan(tier, seed):
    n = 16
    per = {"quick": 70, "thorough": 6000}[tier]
    return [{"name": "c02-%d" % i, "seed": seed * 1000 + i, "index": i, "of": n, "n": per, "tier": tier} for i in range(n)]


def gen(r):
    ns = r.randrange(2, 5)
    servers = r.sample(SERVERS, ns)
    n = r.randrange(2, 13)
    reqs = []
    t = 0.0
    for i in range(n):
        t += r.choice([0.0, 0.0, 0.0, 0.005, 0.5, 3.0])
        reqs.append({"i": i, "t": t, "srv": r.randrange(ns), "type": r.choice(["CON", "CON", "NON"]), "api": r.choice(APIS), "beh": r.choice(BEHAVIOURS), "delay": r.choice([0.0, 0.02, 0.4, 2.5, 7.0])})
    policy = r.choice([None, None, {"p_drop": 0.1, "p_dup": 0.1, "p_delay": 0.3, "max_delay": 0.5}, {"p_drop": 0.3, "p_dup": 0.3, "p_delay": 0.5, "max_delay": 3.0}, {"p_drop": 0.0, "p_dup": 0.5, "p_delay": 0.5, "max_delay": 0.05}])
    forged = []
    for _ in range(r.choice([0, 2, 4, 8])):
        forged.append({"t": r.uniform(0.0, t + 8.0), "cls": r.choice(["random-token", "sniffed-wrong-port", "sniffed-wrong-ip", "retired", "sniffed-true-source", "rst-wrong-source", "rst-random-mid"]), "type": r.choice(["CON", "NON", "ACK"]), "k": r.randrange(1 << 30)})
    forged.sort(key=lambda f: f["t"])
    unreach = None
    if r.random() < 0.3:
        # one more "server": an address the operating system refuses to send to (sendmsg fails synchronously)
        servers = servers + [("10.0.0.77", 5683)]
        unreach = len(servers) - 1
        for q in reqs:
            if r.random() < 0.3:
                q["srv"] = unreach
    pin = None
    if r.random() < 0.12:
        # token counter pinned to a legal start value near a byte-length boundary, one long-lived request, then many
        # short ones: tokens of requests outstanding at the same time must stay pairwise different across the boundary
        pin = r.choice([0, 0, 0xFE, 0xFF, 0xFFFE, 2**64 - 3])
        servers = servers[:2]
        unreach = None
        reqs = [{"i": 0, "t": 0.0, "srv": 0, "type": "CON", "api": "raw", "beh": "never-acked", "delay": 0.0}]
        for i in range(1, 300):
            reqs.append({"i": i, "t": 0.01 * i, "srv": 0, "type": "NON" if i % 7 == 0 else "CON", "api": "raw", "beh": "piggy", "delay": 0.0})
        policy, forged, t = None, [], 3.0
    return {"servers": servers, "reqs": reqs, "policy": policy, "forged": forged, "unreach": unreach, "pin": pin, "unreach_errno": r.choice([101, 1, 22]), "shutdown_at": t + r.choice([20.0, 120.0, 120.0])}


def run_history(h, seed, rep, case):
    from harness import scenario, simnet, refcodec as rc
    import asyncio
    import aiocoap

    box = {}

    async def main(loop):
        r = random.Random(seed)
        pol = simnet.RandomPolicy(r, **h["policy"]) if h["policy"] else simnet.Policy()
        net = simnet.SimNet(loop, pol)
        C = simnet.addr("10.0.0.2", 40001)
        serial = [0]

        def stamp(tag):
            serial[0] += 1
            return b"%s-%d" % (tag, serial[0])

        def on_msg(peer, src, m, raw):
            if m is None or not rc.is_request(m.code):
                return
            path = rc.opt1(m, 11)
            if path is None or not path.startswith(b"q"):
                return
            spec = h["reqs"][int(path[1:])]
            beh, d = spec["beh"], spec["delay"]
            tag = b"s%d" % peer.index
            if m.type == rc.NON:
                if beh in ("never", "icmp"):
                    if beh == "icmp":
                        net.inject_error(C, peer.addr, 111, delay=d)
                    return
                loop.call_later(d, lambda: peer.send(src, rc.Msg(r.choice([rc.NON, rc.CON]) if beh == "sep-con" else rc.NON, rc.c(2, 5), peer.next_mid(), m.token, (), stamp(tag))))
                return
            if beh == "never-acked":
                peer.send(src, rc.Msg(rc.ACK, 0, m.mid, b"", (), b""))
            elif beh == "piggy":
                loop.call_later(d, lambda: peer.send(src, rc.Msg(rc.ACK, rc.c(2, 5), m.mid, m.token, (), stamp(tag))))
            elif beh in ("sep-con", "sep-non"):
                loop.call_later(min(d, 0.3), lambda: peer.send(src, rc.Msg(rc.ACK, 0, m.mid, b"", (), b"")))
                typ = rc.CON if beh == "sep-con" else rc.NON
                loop.call_later(d + 0.5, lambda: peer.send(src, rc.Msg(typ, rc.c(2, 5), peer.next_mid(), m.token, (), stamp(tag))))
            elif beh == "late":
                loop.call_later(9.0 + d, lambda: peer.send(src, rc.Msg(rc.ACK, rc.c(2, 5), m.mid, m.token, (), stamp(tag))))
            elif beh == "rst":
                loop.call_later(d, lambda: peer.send(src, rc.Msg(rc.RST, 0, m.mid, b"", (), b"")))
            elif beh == "icmp":
                net.inject_error(C, peer.addr, 111, delay=d)

        peers = []
        for si, (ip, port) in enumerate(h["servers"]):
            if si == h.get("unreach"):
                net.unreachable[simnet.addr(ip, port)] = h["unreach_errno"]
                continue
            p = simnet.RawPeer(net, ip, port, on_msg)
            p.index = len(peers)
            peers.append(p)
        cli = await simnet.make_context(net, "10.0.0.2", 40001, None, server=False)
        recs = []
        # boundary recorder: the position in the wire log at which each request becomes outstanding
        # (TokenManager.request, instance wrapper) - several things can happen in one virtual instant
        reg_seq = {}
        tman = cli.request_interfaces[0]
        orig_request = tman.request

        def request_wrapper(pipe):
            try:
                p0 = pipe.request.opt.uri_path[0]
                if p0.startswith("q"):
                    reg_seq.setdefault(int(p0[1:]), len(net.log))
            except Exception:
                pass
            return orig_request(pipe)

        tman.request = request_wrapper
        if h.get("pin") is not None:
            if hasattr(tman, "_token"):
                tman._token = h["pin"]
                box["pinned"] = True
            else:
                box["pinned"] = False

        def submit(spec):
            ip, port = h["servers"][spec["srv"]]
            kw = {}
            if spec["api"] == "observe0":
                kw["observe"] = 0
            m = aiocoap.Message(code=aiocoap.GET, uri="coap://%s:%d/q%d" % (ip, port, spec["i"]), transport_tuning=aiocoap.Reliable() if spec["type"] == "CON" else aiocoap.Unreliable(), **kw)
            rq = cli.request(m, handle_blockwise=(spec["api"] == "default"))
            rec = {"spec": spec, "t_call": loop.time(), "done": [], "rq": rq}
            if getattr(rq, "observation", None) is not None:
                rq.observation.register_errback(lambda e: None)
            rq.response.add_done_callback(lambda f, rec=rec: rec["done"].append((loop.time(), None if f.cancelled() else f.exception(), None if (f.cancelled() or f.exception() is not None) else (bytes(f.result().payload), (f.result().remote.sockaddr[0], f.result().remote.sockaddr[1])))))
            recs.append(rec)

        def forge(f):
            fr = random.Random(f["k"])
            # sniff what was seen on the wire so far
            seen = [e for e in net.log if e.kind == "send" and e.src == C and e.msg is not None and rc.is_request(e.msg.code)]
            typ = {"CON": rc.CON, "NON": rc.NON, "ACK": rc.ACK}[f["type"]]
            cls = f["cls"]
            mid = fr.randrange(65536)
            if cls == "random-token":
                dst_srv = fr.choice(peers).addr
                net.inject(dst_srv, C, rc.encode(rc.Msg(typ, rc.c(2, 5), mid, bytes(fr.getrandbits(8) for _ in range(fr.randrange(0, 9))), (), stamp(b"f"))))
                return
            if not seen:
                return
            e = fr.choice(seen)
            if cls == "sniffed-wrong-port":
                src = (e.dst[0], e.dst[1] + 1000)
            elif cls == "sniffed-wrong-ip":
                src = (simnet.norm_ip("10.0.0.99"), e.dst[1])
            elif cls in ("sniffed-true-source", "retired"):
                src = e.dst
                if cls == "retired":
                    done_paths = {("q%d" % rec["spec"]["i"]).encode() for rec in recs if rec["done"]}
                    cands = [x for x in seen if rc.opt1(x.msg, 11) in done_paths]
                    if not cands:
                        return
                    e = fr.choice(cands)
                    src = e.dst
            elif cls == "rst-wrong-source":
                net.inject((e.dst[0], e.dst[1] + 1000), C, rc.encode(rc.Msg(rc.RST, 0, e.msg.mid, b"", (), b"")))
                return
            elif cls == "rst-random-mid":
                net.inject(e.dst, C, rc.encode(rc.Msg(rc.RST, 0, (e.msg.mid + 1000) & 0xFFFF, b"", (), b"")))
                return
            m_mid = e.msg.mid if (typ == rc.ACK and fr.random() < 0.5) else mid
            net.inject(src, C, rc.encode(rc.Msg(typ, rc.c(2, 5), m_mid, e.msg.token, (), stamp(b"f"))))

        timeline = [(s["t"], 0, "req", s) for s in h["reqs"]] + [(f["t"], 1, "forge", f) for f in h["forged"]]
        timeline.sort(key=lambda x: (x[0], x[1]))
        now = 0.0
        for t, _, kind, obj in timeline:
            if t >= h["shutdown_at"]:
                break
            if t > now:
                await asyncio.sleep(t - now)
                now = t
            (submit if kind == "req" else forge)(obj)
        if h["shutdown_at"] > now:
            await asyncio.sleep(h["shutdown_at"] - now)
        t_shutdown = loop.time()
        sd_mark = len(net.log)
        await cli.shutdown()
        t_shutdown_done = loop.time()
        await asyncio.sleep(10)
        for rec in recs:
            rec.pop("rq")
        box.update(net=net, C=C, recs=recs, t_shutdown=t_shutdown, t_shutdown_done=t_shutdown_done, reg_seq=reg_seq, sd_mark=sd_mark)
        return True

    res = scenario.run(main, seed, horizon=1e5)
    if not res.ok:
        if res.horizon:
            rep.inconc("horizon")
        else:
            rep.violation("scenario-failed", "history did not run to completion: hang=%r error=%r" % (res.hang, res.error), {"history": repr(h)[:1500], "tb": rep.exception_witness(res.error) if res.error else None}, case)
        return
    judge(box, h, res, rep, case)


def judge(box, h, res, rep, case):
    from harness import refcodec as rc, simnet
    from aiocoap import error
    from harness.report import sig_hash

    net, C, recs = box["net"], box["C"], box["recs"]
    t_sd = box["t_shutdown"]
    servers = [simnet.addr(*s) for s in h["servers"]]
    wit = lambda **kw: dict(history=repr(h)[:2500], wire=net.dump(120), completions=[(x["spec"]["i"], x["spec"]["api"], x["spec"]["beh"], [(round(d[0], 6), repr(d[1])[:60], repr(d[2])[:60]) for d in x["done"]]) for x in recs], **kw)
    # ---- requests on the wire ----
    by_i = {}
    for e in net.log:
        if e.kind == "send" and e.src == C and e.msg is not None and rc.is_request(e.msg.code):
            p = rc.opt1(e.msg, 11)
            if p and p.startswith(b"q"):
                i = int(p[1:])
                d = by_i.setdefault(i, {"token": e.msg.token, "dst": e.dst, "mid": e.msg.mid, "type": e.msg.type, "tx": [], "first_seq": e.seq})
                if (e.msg.token, e.dst) != (d["token"], d["dst"]):
                    rep.inconc("request %d seen with two tokens/destinations" % i)
                    return
                d["tx"].append(e.t)
    # ---- model replay ----
    # state per request i: 'out' | ('result', payload, t, seq) | ('fail', family, t)
    state = {}
    open_ex = {}  # (dst, mid) -> {"t0", "tx": [...], "i"}
    events = list(net.log)
    outcome = {}
    reg = {}  # request i registered (outstanding) from its first transmission or, if never transmitted, from t_call

    def fail_remote(a, fam, t):
        for i, st in list(state.items()):
            if st == "out" and reg[i]["dst"] == a:
                state[i] = ("fail", fam, t)
        for k in [k for k in open_ex if k[0] == a]:
            del open_ex[k]

    # requests that never reached the wire (held back behind another exchange) are outstanding from their call
    reg_seq = box["reg_seq"]
    sd_mark = box["sd_mark"]
    pending_calls = sorted([(reg_seq.get(x["spec"]["i"], 10**12), x["t_call"], x["spec"]["i"]) for x in recs])
    dst_of = {x["spec"]["i"]: servers[x["spec"]["srv"]] for x in recs}

    def register_until(seq):
        # a request is outstanding from the log position at which the token manager took it
        while pending_calls and pending_calls[0][0] <= seq:
            _, tc, i = pending_calls.pop(0)
            if i not in state:
                state[i] = "out"
                reg[i] = {"dst": dst_of[i], "t": tc}

    def giveups_until(t):
        # exchanges whose give-up instant has passed
        while True:
            due = []
            for k, ex in open_ex.items():
                if len(ex["tx"]) >= 2:
                    g = ex["tx"][0] + (ex["tx"][1] - ex["tx"][0]) * 31
                    if g <= t + 1e-9 and len(ex["tx"]) == 5:
                        due.append((g, k))
            if not due:
                return
            g, k = min(due)
            fail_remote(k[0], "timeout", g)

    unmatched_con, matched_con = [], []
    wrong_source_forgeries = 0
    for e in events:
        if e.seq >= sd_mark:
            break  # shutdown begins here: everything outstanding fails with the shutdown error
        register_until(e.seq)
        giveups_until(e.t)
        if e.kind == "send" and e.src == C and e.msg is not None and rc.is_request(e.msg.code) and e.msg.type == rc.CON:
            k = (e.dst, e.msg.mid)
            ex = open_ex.get(k)
            if ex is None:
                # a first transmission opens the exchange (retransmissions of closed exchanges do not occur)
                open_ex[k] = {"tx": [e.t]}
            else:
                ex["tx"].append(e.t)
            continue
        if e.kind == "error" and e.dst == C:
            fail_remote(e.src, "icmp", e.t)
            continue
        if e.kind == "senderror" and e.src == C:
            # the transport reported an error for that remote while sending: everything outstanding for it fails
            fail_remote(e.dst, "icmp", e.t)
            continue
        if e.kind != "deliver" or e.dst != C or e.msg is None:
            continue
        m = e.msg
        if m.type in (rc.ACK, rc.RST):
            k = (e.src, m.mid)
            if k in open_ex:
                del open_ex[k]
                if m.type == rc.RST:
                    for i, d in by_i.items():
                        if d["dst"] == e.src and d["mid"] == m.mid and state.get(i) == "out":
                            state[i] = ("fail", "rst", e.t)
        if rc.is_response(m.code) and m.type in (rc.CON, rc.NON, rc.ACK):
            hit = None
            for i, st in state.items():
                if st == "out" and i in by_i and by_i[i]["token"] == m.token and by_i[i]["dst"] == e.src and by_i[i]["first_seq"] < e.seq:
                    hit = i
                    break
            if hit is not None:
                state[hit] = ("result", m.payload, e.t, e.seq)
                if m.type == rc.CON:
                    matched_con.append(e)
            else:
                if m.type == rc.CON:
                    unmatched_con.append(e)
                if e.src not in servers and any(d["token"] == m.token for d in by_i.values()):
                    wrong_source_forgeries += 1
    register_until(sd_mark)
    giveups_until(t_sd)
    # What arrives after shutdown() was called but before its sweep has run (same instant, later position in the
    # log) may still be processed normally: for the requests outstanding at the call, such an event is an
    # alternative, equally legitimate explanation of their outcome.
    alt = {}
    for e in events:
        if e.seq < sd_mark:
            continue
        if e.t > box["t_shutdown_done"] + 1e-9:
            break
        if e.kind == "error" and e.dst == C:
            for i, st in state.items():
                if st == "out" and reg[i]["dst"] == e.src:
                    alt.setdefault(i, ("fail", "icmp", e.t))
        elif e.kind == "deliver" and e.dst == C and e.msg is not None:
            m = e.msg
            if m.type == rc.RST:
                for i, d in by_i.items():
                    if d["dst"] == e.src and d["mid"] == m.mid and state.get(i) == "out":
                        alt.setdefault(i, ("fail", "rst", e.t))
            if rc.is_response(m.code) and m.type in (rc.CON, rc.NON, rc.ACK):
                for i, st in state.items():
                    if st == "out" and i in by_i and by_i[i]["token"] == m.token and by_i[i]["dst"] == e.src and by_i[i]["first_seq"] < e.seq:
                        alt.setdefault(i, ("result", m.payload, e.t, e.seq))
                        break
    for i, st in list(state.items()):
        if st == "out":
            state[i] = ("fail", "shutdown", t_sd)
    # ---- compare with the client boundary ----
    nontrivial = bool(h["forged"]) or bool(h["policy"]) or len(recs) > 1
    for x in recs:
        i = x["spec"]["i"]
        rep.monitor("request_outcome")
        if len(x["done"]) != 1:
            rep.violation("completions-%d" % len(x["done"]), "a request's result completed %d times (exactly once is required by the end of the run, which ends with shutdown)" % len(x["done"]), wit(request=i), case)
            continue
        t_done, exc, result = x["done"][0]
        st = state.get(i)
        if st is None:
            rep.inconc("model has no state for request %d" % i)
            return
        if exc is not None and not isinstance(exc, error.Error):
            rep.violation("non-library-exception/" + type(exc).__name__, "a request failed with an exception not derived from the library's error base class", wit(request=i, exc=repr(exc)), case)
            continue
        if st[0] == "fail" and st[1] == "shutdown" and i in alt:
            a = alt[i]
            if (a[0] == "result" and result is not None and result[0] == a[1]) or (a[0] == "fail" and result is None and isinstance(exc, error.NetworkError if a[1] == "icmp" else error.Error) and not isinstance(exc, error.LibraryShutdown)):
                rep.count("outcome_explained_by_event_inside_shutdown_window")
                continue
        if st[0] == "result":
            rep.monitor("result_is_first_matching")
            if result is None:
                rep.violation("matching-response-not-delivered/%s" % api_key(x, exc), "a response from the request's endpoint with the request's token was delivered while it was outstanding, but the request ended with %s" % type(exc).__name__, wit(request=i, model=repr(st), exc=repr(exc)), case)
            elif result[0] != st[1]:
                rep.violation("wrong-response-delivered", "the request completed with another datagram than the first matching response", wit(request=i, model=repr(st), got=repr(result)), case)
            elif abs(t_done - st[2]) > 1e-6:
                rep.violation("response-delivered-at-wrong-instant", "the request completed at another instant than the arrival of its response", wit(request=i, model=repr(st), t_done=t_done), case)
            elif result[1] != by_i[i]["dst"]:
                rep.violation("result-remote-differs", "the result's remote is not the endpoint the request was sent to", wit(request=i, got=repr(result)), case)
        else:
            rep.monitor("failure_explained")
            fam, t_fail = st[1], st[2]
            if result is not None:
                rep.violation("completed-without-matching-response", "the request completed with a response although no response from its endpoint with its token was delivered while it was outstanding", wit(request=i, model=repr(st), got=repr(result)), case)
                continue
            tol = 1e-6 if fam != "shutdown" else (box["t_shutdown_done"] - t_sd) + 1e-6
            if abs(t_done - t_fail) > tol and not (fam == "shutdown" and t_sd - 1e-9 <= t_done <= box["t_shutdown_done"] + 1e-9):
                rep.violation("failed-at-unexplained-instant/%s" % fam, "the request failed at an instant at which nothing in the history explains a failure (model: %s at %r)" % (fam, t_fail), wit(request=i, model=repr(st), t_done=t_done, exc=repr(exc)), case)
            elif fam == "timeout" and not (isinstance(exc, error.NetworkError)):
                rep.violation("timeout-wrong-class/" + type(exc).__name__, "give-up of the exchange did not produce a network error", wit(request=i, exc=repr(exc)), case)
            elif fam == "icmp" and not isinstance(exc, error.NetworkError):
                rep.violation("transport-error-wrong-class/" + type(exc).__name__, "a reported transport error did not produce a network error", wit(request=i, exc=repr(exc)), case)
            elif fam == "shutdown" and not isinstance(exc, error.LibraryShutdown):
                rep.violation("shutdown-wrong-class/" + type(exc).__name__, "shutdown did not fail the request with the shutdown error", wit(request=i, exc=repr(exc)), case)
    # ---- reactions to CON responses ----
    sends = [e for e in net.log if e.kind == "send" and e.src == C]
    for e in unmatched_con:
        rep.monitor("unmatched_con_rst")
        out = [s for s in sends if s.cause == e.seq]
        ok = len(out) == 1 and out[0].msg is not None and out[0].msg.type == rc.RST and out[0].msg.mid == e.msg.mid and out[0].dst == e.src and out[0].msg.code == 0
        if not ok:
            rep.violation("unmatched-con-response-not-reset", "a confirmable response with an unknown / retired token or from another endpoint was not answered with a Reset to its source", wit(event=e.brief(), emitted=[s.brief() for s in out]), case)
    for e in matched_con:
        rep.monitor("matched_con_ack")
        out = [s for s in sends if s.cause == e.seq]
        ok = len(out) == 1 and out[0].msg is not None and out[0].msg.type == rc.ACK and out[0].msg.code == 0 and out[0].msg.mid == e.msg.mid and out[0].dst == e.src
        if not ok:
            rep.violation("matched-con-response-not-acked", "a confirmable response that completed a request was not acknowledged with an empty ACK", wit(event=e.brief(), emitted=[s.brief() for s in out]), case)
    if wrong_source_forgeries:
        rep.monitor("forged_wrong_source_not_delivered", wrong_source_forgeries)
    # ---- token uniqueness among concurrently outstanding requests per endpoint ----
    rep.monitor("token_uniqueness")
    spans = []
    for x in recs:
        i = x["spec"]["i"]
        if i in by_i and x["done"]:
            spans.append((by_i[i]["dst"], by_i[i]["token"], by_i[i]["tx"][0], x["done"][0][0], i))
    for a in spans:
        for b in spans:
            if a[4] < b[4] and a[0] == b[0] and a[1] == b[1] and a[2] <= b[3] and b[2] <= a[3]:
                rep.violation("token-reused-concurrently", "two requests outstanding at the same time towards one endpoint carry the same token", wit(a=repr(a), b=repr(b)), case)
    if res.loop_exceptions:
        rep.violation("loop-exception/" + str(res.loop_exceptions[0].get("exc_type")), "an exception reached the event loop", wit(loop=res.loop_exceptions[:2]), case)
    sig = sig_hash([(e.kind, e.src == C, e.msg.type if e.msg else None, (e.msg.code >> 5) if e.msg else None, e.note) for e in net.log][:400])
    rep.case(sig, nontrivial=nontrivial)
    if h.get("pin") is not None:
        if box.get("pinned"):
            rep.monitor("token_boundary_crossed")
        else:
            rep.count("token_pin_unavailable")
    rep.count("requests", len(recs))
    rep.count("forged", len(h["forged"]))
    for x in recs:
        st = state.get(x["spec"]["i"])
        rep.count("outcome_" + (st[0] if st[0] == "result" else st[1]))


def api_key(x, exc):
    return "%s/%s" % (x["spec"]["api"], type(exc).__name__)


def run_bystander(kind, variant, seed, rep, case):
    """Requests of an unusual kind are outstanding while ordinary requests to other endpoints run into a transport
    error, a time-out and a normal response: each of the ordinary ones completes exactly once, at the instant its
    cause occurs, with a library error or its response.
    kind 'multicast': an unanswered request to a multicast group is outstanding (keyed without a remote).
    kind 'obs-cancelled': a block-wise (default API) observe request whose observation the application cancelled
    before the (non-observable) response arrives.
    kind 'block1-in-response': the response to a plain request carries a Block1 option."""
    from harness import scenario, simnet, refcodec as rc
    import asyncio
    import aiocoap
    from aiocoap import error

    box = {}

    async def main(loop):
        net = simnet.SimNet(loop)
        C = simnet.addr("10.0.0.2", 40001)

        notif = []

        def answering(peer, src, m, raw):
            if m is None or not rc.is_request(m.code):
                return
            path = rc.opt1(m, 11) or b""
            opts = ()
            if path == b"b1":
                opts = ((27, rc.block_bytes(0, False, 2)),)  # a Block1 option nobody asked for
                if rc.opt1(m, 6) is not None:
                    # ... in the response to an observe request, which the server accepts (Observe option), and goes on
                    # notifying: once the request has ended with an error, its token is retired
                    opts = ((6, b"\x05"),) + opts
                    for k, typ in enumerate((rc.CON, rc.NON, rc.CON)):
                        loop.call_later(1.0 + k, lambda k=k, typ=typ: (notif.append(len(net.log)), peer.send(src, rc.Msg(typ, rc.c(2, 5), peer.next_mid(), m.token, ((6, bytes([6 + k])),), b"n%d" % k))))
            if path == b"big":
                # a representation of three blocks; the later blocks are acknowledged but never sent.  While the
                # application waits for them it gives up; afterwards notifications (observe request) resp. the late
                # block (plain request) arrive on tokens of a request that is over
                b2 = rc.opt1(m, 23)
                num = rc.block_value(b2)[0] if b2 is not None else 0
                obs = rc.opt1(m, 6) is not None
                if num == 0:
                    box["t_first"] = m.token
                    peer.send(src, rc.Msg(rc.ACK if m.type == rc.CON else rc.NON, rc.c(2, 5), m.mid if m.type == rc.CON else peer.next_mid(), m.token, (((6, b"\x01"),) if obs else ()) + ((23, rc.block_bytes(0, True, 2)),), b"a" * 64))
                    if obs:
                        for k, typ in enumerate((rc.CON, rc.NON, rc.CON)):
                            loop.call_later(2.0 + k, lambda k=k, typ=typ: (notif.append(len(net.log)), peer.send(src, rc.Msg(typ, rc.c(2, 5), peer.next_mid(), m.token, ((6, bytes([6 + k])),), b"n%d" % k))))
                else:
                    if m.type == rc.CON:
                        peer.send(src, rc.Msg(rc.ACK, 0, m.mid, b"", (), b""))
                    for k, typ in enumerate((rc.CON, rc.NON)):
                        loop.call_later(3.0 + k, lambda k=k, typ=typ: (notif.append(len(net.log)), peer.send(src, rc.Msg(typ, rc.c(2, 5), peer.next_mid(), m.token, ((23, rc.block_bytes(num, True, 2)),), b"n" + b"b" * 63))))
                return
            d = 0.5 if path == b"late" else 0.0
            loop.call_later(d, peer.send, src, rc.Msg(rc.ACK if m.type == rc.CON else rc.NON, rc.c(2, 5), m.mid if m.type == rc.CON else peer.next_mid(), m.token, opts, b"ok-" + path))

        simnet.RawPeer(net, "10.0.0.1", 5683, answering)
        simnet.RawPeer(net, "10.0.0.3", 5683)  # silent
        icmp_peer = simnet.RawPeer(net, "10.0.0.4", 5683, lambda peer, src, m, raw: net.inject_error(C, peer.addr, 111))
        cli = await simnet.make_context(net, "10.0.0.2", 40001, None, server=False)
        out = {}

        def go(name, msg, **kw):
            rq = cli.request(msg, **kw)
            rq.response.add_done_callback(lambda f: out.setdefault(name, (loop.time(), None if f.cancelled() else f.exception(), None if (f.cancelled() or f.exception()) else bytes(f.result().payload))))
            return rq

        if kind == "multicast":
            for k in range(variant + 1):
                go("mc%d" % k, aiocoap.Message(code=aiocoap.GET, uri="coap://[ff02::fd]/x%d" % k))
            await asyncio.sleep(0.1)
        t0 = loop.time()
        go("icmp", aiocoap.Message(code=aiocoap.GET, uri="coap://10.0.0.4/a"), handle_blockwise=False)
        go("silent", aiocoap.Message(code=aiocoap.GET, uri="coap://10.0.0.3/b"), handle_blockwise=bool(variant % 2))
        go("ok", aiocoap.Message(code=aiocoap.GET, uri="coap://10.0.0.1/c"), handle_blockwise=False)
        if kind == "obs-cancelled":
            rq = go("obs", aiocoap.Message(code=aiocoap.GET, uri="coap://10.0.0.1/late", observe=0), handle_blockwise=bool(variant % 2) or True)
            rq.observation.register_errback(lambda e: None) if variant >= 2 else None
            await asyncio.sleep(0.1)
            rq.observation.cancel()
        if kind == "block1-in-response":
            kw = {"observe": 0} if variant >= 4 else {}
            go("b1", aiocoap.Message(code=[aiocoap.GET, aiocoap.FETCH if variant >= 4 else aiocoap.PUT][variant % 2], uri="coap://10.0.0.1/b1", payload=b"" if variant % 2 == 0 else b"x", **kw), handle_blockwise=True)
        if kind == "cancel-in-block2":
            rq = go("big", aiocoap.Message(code=aiocoap.GET, uri="coap://10.0.0.1/big", **({"observe": 0} if variant % 2 == 0 else {})), handle_blockwise=True)
            if variant % 2 == 0 and variant >= 2:
                rq.observation.register_errback(lambda e: None)
            await asyncio.sleep(0.5)
            box["cancelled_at"] = loop.time()
            box["cancel_pending"] = not rq.response.done()
            rq.response.cancel()
            del rq
        await asyncio.sleep(120.0)
        box.update(net=net, out=dict(out), t0=t0, notif=list(notif))
        await cli.shutdown()
        await asyncio.sleep(1.0)
        box["after"] = dict(out)
        return True

    res = scenario.run(main, seed)
    if not res.ok:
        if res.horizon:
            rep.inconc("horizon in bystander scenario")
        else:
            rep.violation("bystander/%s/scenario-failed" % kind, "scenario did not complete: hang=%r error=%r" % (res.hang, res.error), {"kind": kind, "variant": variant}, case)
        return
    rep.monitor("bystander")
    C_ADDR = simnet.addr("10.0.0.2", 40001)
    out, after = box["out"], box["after"]
    w = lambda **kw: dict(kind=kind, variant=variant, outcomes={k: (round(v[0], 4), repr(v[1]), v[2]) for k, v in after.items()}, wire=box["net"].dump(30), loop=res.loop_exceptions[:2], **kw)
    exp = {"icmp": lambda v: isinstance(v[1], error.NetworkError) and v[0] - box["t0"] < 0.1, "silent": lambda v: isinstance(v[1], error.NetworkError) and 60 < v[0] - box["t0"] < 100, "ok": lambda v: v[1] is None and v[2] == b"ok-c"}
    for name, pred in exp.items():
        if name not in out:
            rep.violation("bystander/%s/request-never-completed/%s" % (kind, name), "with a request of kind '%s' outstanding, an ordinary request (%s) neither completed nor failed" % (kind, name), w(), case)
            return
        if not pred(out[name]):
            rep.violation("bystander/%s/wrong-outcome/%s" % (kind, name), "with a request of kind '%s' outstanding, an ordinary request (%s) ended in another way or at another time than its cause explains" % (kind, name), w(), case)
            return
    for name, v in after.items():
        if v[1] is not None and not isinstance(v[1], error.Error):
            rep.violation("bystander/%s/non-library-exception/%s/%s" % (kind, name, type(v[1]).__name__), "a request failed with an exception not derived from the library's error base class", w(), case)
            return
    if kind == "multicast" and any(("mc%d" % k) not in after or not isinstance(after["mc%d" % k][1], error.LibraryShutdown) for k in range(variant + 1)):
        rep.violation("bystander/multicast/not-ended-by-shutdown", "an unanswered multicast request did not end with the shutdown error when its context shut down", w(), case)
    if kind == "obs-cancelled" and ("obs" not in after or after["obs"][1] is not None or after["obs"][2] != b"ok-late"):
        rep.violation("bystander/obs-cancelled/request-not-completed-with-its-response", "an observe request whose observation the application had cancelled did not complete with the (matching) response", w(), case)
    if kind == "block1-in-response" and variant >= 4 and "b1" in out and out["b1"][1] is not None:
        # the request ended with an error: its token is retired; confirmable responses on it are to be answered with a
        # Reset, non-confirmable ones not at all
        net_ = box["net"]
        rep.monitor("retired_token_after_failed_observe_request")
        for e in net_.log:
            if e.kind == "deliver" and e.dst == C_ADDR and e.msg is not None and rc.is_response(e.msg.code) and e.msg.payload[:1] == b"n" and e.t > out["b1"][0] + 1e-9:
                reacts = [s_ for s_ in net_.log if s_.kind == "send" and getattr(s_, "cause", None) == e.seq]
                ok = (len(reacts) == 1 and reacts[0].msg is not None and reacts[0].msg.type == rc.RST and reacts[0].msg.mid == e.msg.mid) if e.msg.type == rc.CON else not reacts
                if not ok:
                    rep.violation("retired-token/response-accepted-after-request-failed/%s" % ("con" if e.msg.type == rc.CON else "non"), "a response on the token of a request that had ended with an error was not rejected (confirmable: Reset; non-confirmable: nothing)", w(event=e.brief(), reactions=[s_.brief() for s_ in reacts]), case)
                    return
    if kind == "cancel-in-block2":
        net_ = box["net"]
        if not box.get("cancel_pending"):
            rep.inconc("cancel-in-block2: the request was over before the application gave up")
            return
        rep.monitor("retired_token_after_cancelled_blockwise_request")
        seen_late = 0
        for e in net_.log:
            if e.kind == "deliver" and e.dst == C_ADDR and e.msg is not None and rc.is_response(e.msg.code) and e.msg.payload[:1] == b"n" and e.t > box["cancelled_at"] + 1e-9:
                seen_late += 1
                reacts = [s_ for s_ in net_.log if s_.kind == "send" and getattr(s_, "cause", None) == e.seq]
                ok = (len(reacts) == 1 and reacts[0].msg is not None and reacts[0].msg.type == rc.RST and reacts[0].msg.mid == e.msg.mid) if e.msg.type == rc.CON else not reacts
                if not ok:
                    rep.violation("retired-token/response-accepted-after-request-cancelled/%s/%s" % ("first-token" if e.msg.token == box.get("t_first") else "block-token", "con" if e.msg.type == rc.CON else "non"), "a response on a token of a block-wise request the application had cancelled while later blocks were being fetched was not rejected (confirmable: Reset; non-confirmable: nothing)", w(event=e.brief(), reactions=[s_.brief() for s_ in reacts]), case)
                    return
        if not seen_late:
            rep.inconc("cancel-in-block2: no late response was delivered")
            return
    if kind == "block1-in-response" and ("b1" not in after or not (after["b1"][1] is None or isinstance(after["b1"][1], error.Error))):
        rep.violation("bystander/block1-in-response/not-a-library-outcome", "a response carrying an unsolicited Block1 option did not lead to the response or a library error", w(), case)
    if res.loop_exceptions:
        rep.violation("bystander/%s/loop-exception/%s" % (kind, res.loop_exceptions[0].get("exc_type")), "an exception reached the event loop", w(), case)
    rep.case(("bystander", kind, variant), nontrivial=True)


def run_shard(shard, rep, only=None):
    from harness import vloop

    vloop.install_time()
    import aiocoap  # noqa

    r = random.Random(shard["seed"])
    for n in range(shard["n"]):
        h = gen(r)
        case = ["hist", n]
        if only is not None and only != case:
            continue
        run_history(h, shard["seed"] * 65537 + n, rep, case)
        if n < 1 and shard["index"] == 0:
            rep.sample({"class": "history", "history": h})
    by = [(k, v) for k in ("multicast", "obs-cancelled", "block1-in-response") for v in range(4)] + [("block1-in-response", v) for v in range(4, 8)] + [("cancel-in-block2", v) for v in range(4)]
    for j, (kind, variant) in enumerate(by):
        if j % shard["of"] != shard["index"]:
            continue
        case = ["bystander", j]
        if only is not None and only != case:
            continue
        run_bystander(kind, variant, shard["seed"] * 977 + j, rep, case)
