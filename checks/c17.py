"""C17 -- Site routing (exact match, longest proper prefix for nested sites, 4.04),
effect of add/remove for the next request, stripped path + reconstructible request
URI in the handler, /.well-known/core listing and RFC 6690 single-parameter filters.

A real aiocoap server Context (real Site / WKCResource / Resource objects) runs on
the simulated UDP network; requests are raw datagrams built with harness.refcodec
(so arbitrary Uri-Path option lists incl. empty components can be sent).  Every
registration operation is mirrored into a small model (MSite/MLeaf/MSink); an
independent router (`route`) and lister (`listing`) over that mirror are the oracle.
The listing payload is read with harness.reflink (independent RFC 6690 parser).
"""

import random

ID = "C17"
LEVEL = "exploration"
TECHNIQUE = (
    "model-based runtime monitoring: random registration trees and add/remove histories applied to a real Site served by a "
    "real Context on a simulated network; every request's handler log (instance, Uri-Path seen, get_request_uri()) and every "
    "/.well-known/core payload (parsed by an independent RFC 6690 parser) is compared with an independent router/lister over a "
    "mirror of the registration history"
)
LEVEL_TEXT = (
    "Held on every generated history: ~3.7e5 (quick) / ~1.3e7 (thorough) routed requests and ~6e4 / ~2.3e6 discovery queries over random "
    "trees (segments from {a,b,c,''}, path length <= 4, nested sites <= 3 levels, hidden resources, multi-valued rt/if/ct) with "
    "interleaved add/remove; says nothing about trees, paths or filter values outside those generators."
)
LEVEL_NOTE = (
    "Trusted: harness/reflink.py (self-tested on the RFC 6690 examples each run), harness/refcodec.py, the ~25-line router and "
    "lister in checks/c17.py. Multi-parameter filter queries and a resource plus a sub-site at one path are not judged."
)
RULE = (
    "one case = one request (routing) or one discovery query against the current registration tree of a generated history; "
    "non-trivial when the tree is non-empty and (routing) the path is non-empty or (discovery) at least two links are expected "
    "before filtering; distinct = distinct (step class, path length, empties in path, route trace {exact-shadows-subsite, "
    "several-prefixes, hops, empty-remainder...}, outcome class, just-added/just-removed) resp. (filter parameter, pattern class, "
    "result-size class, nesting depth) signatures"
)
ASSUMPTIONS = [
    "harness/reflink.py is a correct reading of RFC 6690 section 2 (ABNF) and section 4.1 (filtering: identical value, or prefix with a trailing '*'; "
    "space-separated rt/if/ct values match item-wise; a link without the attribute cannot match)",
    "the full path of a nested site's root resource (registered at []) is <site path>/ (trailing slash), as documented in the Site docstring; a request "
    "whose remainder is exactly [''] may be presented to the sub-site either as [] (documented) or as [''] (literal); 4.04 is accepted there only if the "
    "documented reading also gives 4.04",
    "the original request URI of a raw request is the RFC 7252 section 6.5 composition of its Uri-Host / destination address, destination port, Uri-Path and Uri-Query options",
    "a resource and a sub-site registered at the same path ('odd design, not fully supported') is never generated; remove_resource is only called for registered paths",
    "PathCapable leaves without get_resources_as_linkheader contribute no links",
]
REQUIRED_MONITORS = {"wkc_filter_case_variant": 300, "wkc_by_path_abbreviation": 1000, 
    "quick": {"route_handler": 30000, "route_404": 40000, "stripped_path": 30000, "request_uri": 30000, "nested_hop": 10000, "two_level_hop": 2500, "longest_prefix": 1000, "exact_over_subsite": 1500, "empty_remainder_decisive": 200, "after_add": 8000, "after_remove": 3000, "wkc_listing": 7000, "wkc_listing_nested": 4000, "wkc_filter": 8000, "wkc_filter_star": 4000, "wkc_hidden": 3000, "path_sweep": 4000, "direct_render": 50000},
    "thorough": {"route_handler": 900000, "route_404": 1200000, "stripped_path": 900000, "request_uri": 900000, "nested_hop": 300000, "two_level_hop": 75000, "longest_prefix": 30000, "exact_over_subsite": 45000, "empty_remainder_decisive": 6000, "after_add": 240000, "after_remove": 90000, "wkc_listing": 210000, "wkc_listing_nested": 120000, "wkc_filter": 240000, "wkc_filter_star": 120000, "wkc_hidden": 90000, "path_sweep": 120000, "direct_render": 1500000},
}
EXHAUSTIVE = {"request_paths_up_to_length_3": "in every 8th history, all 85 Uri-Path lists of length <= 3 over {a,b,c,''} are requested against the final tree"}
WORKER_TIMEOUT = {"quick": 600, "thorough": 7200}

SEGS = ["a", "b", "c", ""]
NF = ("404",)
RT_VALUES = ["x", "y", "xy", "x.y", "temp", "x y", "xy x", "temp x.y y", "X", "Temp", "x Y", "TEMP x"]
IF_VALUES = ["s", "core.s", "core.a", "s core.a", "S", "Core.s"]
CT_VALUES = [0, 40, 50, "0 40", "40 50 60"]
TITLE_VALUES = ["t", "temp", "x y", 'a,b;c "q"', "T", "Temp", "X y"]
SZ_VALUES = ["1", "12", "120"]
FIXED = ["rootmount", "filter-absent-attribute", "filter-title", "filter-valueless", "docstring-batch"]


def plan(tier, seed):
    n = 16
    per = {"quick": 450, "thorough": 16000}[tier]
    return [{"name": "c17-%d" % i, "seed": seed * 1000 + i, "n": per, "index": i, "of": n, "tier": tier} for i in range(n)]


# ----------------------------------------------------------------------------------
# the model: a mirror of the registration history, and an independent router / lister
# ----------------------------------------------------------------------------------
class MLeaf:
    def __init__(self, id, params, hidden):
        self.id, self.params, self.hidden = id, tuple(params), hidden


class MSink:  # PathCapable leaf: "nested site" that renders every remainder itself
    def __init__(self, id, links):
        self.id, self.links = id, links  # links: None | [(components, params)]


class MSite:
    def __init__(self, name, level):
        self.name, self.level = name, level
        self.res = {}  # path tuple -> MLeaf
        self.sub = {}  # path tuple -> MSite | MSink
        self.at = None  # (parent MSite, path) while attached


def route(site, path, tr):
    """Property statement, read independently: the resource registered at exactly `path`;
    otherwise the nested site at the longest proper prefix with the remaining components;
    otherwise 4.04.  Returns the set of acceptable outcomes; `tr` collects what decided."""
    subs = [k for k in range(len(path) - 1, -1, -1) if path[:k] in site.sub]  # proper prefixes, longest first
    if path in site.res:
        if subs:
            tr.append("exact-shadows-subsite")
        return {("run", site.res[path].id, ())}
    if not subs:
        return {NF}
    if len(subs) > 1:
        tr.append("several-prefixes")
    k = subs[0]
    tr.append("rootmount" if k == 0 else "hop")
    tgt, rest = site.sub[path[:k]], path[k:]
    if isinstance(tgt, MSink):
        if rest == ("",):
            tr.append("sink-empty-remainder")
            return {("run", tgt.id, rest), ("run", tgt.id, ())}
        return {("run", tgt.id, rest)}
    if rest == ("",):
        # documented: "sub-sites should see their root resource like sites" -> []; literal: ['']
        doc, lit = route(tgt, (), tr), route(tgt, rest, [])
        tr.append("empty-remainder-decisive" if (doc != {NF} and lit == {NF}) else "empty-remainder")
        return doc | (lit - {NF})
    return route(tgt, rest, tr)


def listing(site):
    """[(full components relative to `site`, params, passes-through-a-site-mounted-at-[])] of the
    resources that do not hide themselves; a nested site's root resource is at <prefix>/."""
    out = [(p, l.params, False) for p, l in site.res.items() if not l.hidden]
    for p, t in site.sub.items():
        inner = listing(t) if isinstance(t, MSite) else [(q, a, False) for q, a in (t.links or [])]
        out += [(p + (q or ("",)), a, rm or p == ()) for q, a, rm in inner]
    return out


def listing_hrefs_if_prefix_joined_textually(site):
    """Classifier only (never an oracle): the hrefs that result when a nested site's prefix is glued on as
    '/' + '/'.join(prefix) + inner_href -- identical to `listing` except below a site mounted at []."""
    out = [(href_of(p), l.params) for p, l in site.res.items() if not l.hidden]
    for p, t in site.sub.items():
        inner = listing_hrefs_if_prefix_joined_textually(t) if isinstance(t, MSite) else [(href_of(q), a) for q, a in (t.links or [])]
        out += [(href_of(p) + h, a) for h, a in inner]
    return out


def href_of(components):
    return "/" + "/".join(components)


def compose_uri(host_opt, ip, port, path, query):
    """RFC 7252 section 6.5 (segments and query items here never need percent-encoding)"""
    host = host_opt or ("[%s]" % ip if ":" in ip else ip)
    return "coap://" + host + ("" if port == 5683 else ":%d" % port) + "/" + "/".join(path) + ("?" + "&".join(query) if query else "")


def dump_tree(site):
    return {
        "resources": {repr(list(p)): {"id": l.id, "hidden": l.hidden, "params": list(l.params)} for p, l in site.res.items()},
        "subsites": {repr(list(p)): (dump_tree(t) if isinstance(t, MSite) else {"sink": t.id, "links": t.links}) for p, t in site.sub.items()},
    }


def depth_of(site):
    return 1 + max([depth_of(t) for t in site.sub.values() if isinstance(t, MSite)] + [0])


# ----------------------------------------------------------------------------------
# real side
# ----------------------------------------------------------------------------------
_CLASSES = None
HLOG = []  # handler log: one entry per handler invocation (cleared before each request)


def classes():
    """Test resources (defined lazily: aiocoap must be imported after vloop.install_time())."""
    global _CLASSES
    hlog = HLOG
    if _CLASSES is not None:
        return _CLASSES
    import aiocoap
    import aiocoap.resource as R
    from aiocoap.util.linkformat import Link, LinkFormat

    def record(self, request):
        try:
            uri = request.get_request_uri()
            err = None
        except Exception as e:  # the property promises reconstruction; an exception is its breach
            uri, err = None, repr(e)
        hlog.append({"id": self.vid, "path": tuple(request.opt.uri_path), "uri": uri, "uri_exc": err, "method": str(request.code)})
        return aiocoap.Message(payload=self.vid.encode("ascii"))

    class Handlers:
        async def render_get(self, request):
            return record(self, request)

        async def render_post(self, request):
            return record(self, request)

    class Leaf(Handlers, R.Resource):
        """attributes ct / rt / if_ set on the instance are exposed by the stock get_link_description"""

        def __init__(self, vid):
            super().__init__()
            self.vid = vid

    class CustomLeaf(Handlers, R.Resource):
        """overrides get_link_description: a more comprehensive dictionary, or None to hide"""

        def __init__(self, vid, desc):
            super().__init__()
            self.vid, self.desc = vid, desc

        def get_link_description(self):
            return None if self.desc is None else dict(self.desc)

    class ObsLeaf(Handlers, R.ObservableResource):
        def __init__(self, vid):
            super().__init__()
            self.vid = vid

    class Sink(Handlers, R.Resource, R.PathCapable):
        def __init__(self, vid):
            super().__init__()
            self.vid = vid

    class ListingSink(Sink):
        def __init__(self, vid, links):
            super().__init__(vid)
            self.links = links

        def get_resources_as_linkheader(self):
            return LinkFormat([Link("/" + "/".join(q), [list(kv) for kv in a]) for q, a in self.links])

    _CLASSES = {"Leaf": Leaf, "CustomLeaf": CustomLeaf, "ObsLeaf": ObsLeaf, "Sink": Sink, "ListingSink": ListingSink, "R": R}
    return _CLASSES


class NoAnswer(Exception):
    pass


class Abort(Exception):
    """the registration API itself failed: model and site have diverged, the history ends here"""


class RawClient:
    """CON requests from a raw endpoint; returns the response carrying the token."""

    def __init__(self, net, loop, dst):
        from harness import simnet, refcodec as rc

        self.rc, self.loop, self.dst = rc, loop, dst
        self.peer = simnet.RawPeer(net, "10.0.0.2", 40001, on_msg=self._on)
        self.waiting = {}
        self.tok = 0

    def _on(self, peer, src, m, data):
        rc = self.rc
        if m is None or m.code == 0:
            return
        if m.type == rc.CON:
            peer.send(src, rc.Msg(rc.ACK, 0, m.mid, b"", (), b""))
        fut = self.waiting.pop(m.token, None)
        if fut is not None and not fut.done():
            fut.set_result(m)

    async def request(self, code, options, payload=b""):
        import asyncio

        rc = self.rc
        self.tok += 1
        token = self.tok.to_bytes(3, "big")
        fut = self.loop.create_future()
        self.waiting[token] = fut
        self.peer.send(self.dst, rc.Msg(rc.CON, code, self.peer.next_mid(), token, tuple(options), payload))
        try:
            return await asyncio.wait_for(fut, 60)
        except asyncio.TimeoutError:
            raise NoAnswer("no response within 60 virtual seconds on a lossless network for options %r" % (options,))

    async def get_all_blocks(self, options):
        """GET following Block2 until the representation is complete."""
        rc = self.rc
        m = await self.request(1, options)
        body = m.payload
        first = m
        while True:
            b2 = rc.opt1(m, rc.BLOCK2)
            if b2 is None:
                break
            num, more, szx = rc.block_value(b2)
            if not more:
                break
            m = await self.request(1, tuple(options) + ((rc.BLOCK2, rc.block_bytes(num + 1, False, szx)),))
            if m.code != first.code:
                break
            body += m.payload
        return first, body


# ----------------------------------------------------------------------------------
# one history
# ----------------------------------------------------------------------------------
class Scenario:
    def __init__(self, rep, loop, r, case, allow_rootmount=False, steps=60, sweep=False):
        self.rep, self.loop, self.r, self.case = rep, loop, r, case
        self.allow_rootmount = allow_rootmount
        self.sweep = sweep
        self.steps = steps
        self.hlog = HLOG
        self.cls = classes()
        del self.hlog[:]
        self.next_id = 0
        self.real = {}  # model object id() -> real object
        self.ops = []  # history (for witnesses)
        self.removed_paths = []
        self.fresh = {}  # full path -> "added" | "removed" since the last request to it
        self.sites = []

    # -- construction helpers --------------------------------------------------------
    def vid(self, prefix):
        self.next_id += 1
        return "%s%d" % (prefix, self.next_id)

    def new_site(self, level):
        s = MSite("S%d" % len(self.sites), level)
        self.sites.append(s)
        self.real[id(s)] = self.cls["R"].Site()
        return s

    def gen_path(self, lo=0, hi=4, empty_ok=True):
        r = self.r
        n = r.choice([lo, 1, 1, 1, 2, 2, 2, 3, 3, 4])
        n = max(lo, min(hi, n))
        w = [4, 3, 2, 2 if empty_ok else 0]
        return tuple(r.choices(SEGS, w)[0] for _ in range(n))

    def gen_leaf(self):
        """returns (MLeaf, real resource)"""
        r = self.r
        kind = r.choices(["plain", "attrs", "custom", "hidden", "obs"], [2, 5, 2, 2, 1])[0]
        vid = self.vid("L")
        if kind == "plain":
            return MLeaf(vid, (), False), self.cls["Leaf"](vid)
        if kind == "hidden":
            return MLeaf(vid, (), True), self.cls["CustomLeaf"](vid, None)
        params = []
        if r.random() < 0.5:
            params.append(("ct", r.choice(CT_VALUES)))
        if r.random() < 0.75:
            params.append(("rt", r.choice(RT_VALUES)))
        if r.random() < 0.4:
            params.append(("if", r.choice(IF_VALUES)))
        if kind in ("attrs", "obs"):
            res = self.cls["Leaf" if kind == "attrs" else "ObsLeaf"](vid)
            for k, v in params:
                setattr(res, "if_" if k == "if" else k, v)
            mp = [(k, str(v)) for k, v in params]
            if kind == "obs":
                mp.append(("obs", None))
            return MLeaf(vid, mp, False), res
        if r.random() < 0.6:
            params.append(("title", r.choice(TITLE_VALUES)))
        if r.random() < 0.4:
            params.append(("sz", r.choice(SZ_VALUES)))
        mp = [(k, str(v)) for k, v in params]
        return MLeaf(vid, mp, False), self.cls["CustomLeaf"](vid, dict(mp))

    def gen_sink(self):
        r = self.r
        vid = self.vid("K")
        if r.random() < 0.5:
            return MSink(vid, None), self.cls["Sink"](vid)
        links = []
        for _ in range(r.choice([1, 1, 2])):
            q = tuple(r.choice(["s", "t", "a"]) for _ in range(r.choice([1, 1, 2])))
            a = [("rt", r.choice(RT_VALUES))] if r.random() < 0.6 else []
            links.append((q, tuple(a)))
        return MSink(vid, links), self.cls["ListingSink"](vid, links)

    def attached_prefix(self, site):
        """literal path from the root site down to `site`, or None if detached somewhere"""
        pre = ()
        while site.at is not None:
            parent, p = site.at
            pre = p + pre
            site = parent
        return pre if site is self.sites[0] else None

    def reachable(self):
        """[(kind, literal full path, object)] of everything attached below the root"""
        out = []

        def walk(site, pre):
            for p, l in site.res.items():
                if l.id != "WKC":
                    out.append(("leaf", pre + p, l))
            for p, t in site.sub.items():
                if isinstance(t, MSite):
                    out.append(("site", pre + p, t))
                    walk(t, pre + p)
                else:
                    out.append(("sink", pre + p, t))

        walk(self.sites[0], ())
        return out

    # -- operations ----------------------------------------------------------------------
    def real_add(self, site, path, robj):
        rs = self.real[id(site)]
        arg = list(path) if self.r.random() < 0.5 else tuple(path)
        try:
            rs.add_resource(arg, robj)
        except Exception as e:
            self.violation("ops/add_resource-raises/" + type(e).__name__, "Site.add_resource(%r, ...) raised %r" % (arg, e), traceback=self.rep.exception_witness(e))
            raise Abort()

    def op_add_leaf(self, site=None, path=None):
        r = self.r
        site = site or r.choice(self.sites)
        path = self.gen_path() if path is None else path
        if path in site.sub:
            self.op_remove(site, path)
        ml, rl = self.gen_leaf()
        replaced = path in site.res
        site.res[path] = ml
        self.real_add(site, path, rl)
        self.ops.append(["add_resource", site.name, list(path), ml.id, {"hidden": ml.hidden, "params": list(ml.params)}])
        self.rep.count("op_add_leaf" + ("_replace" if replaced else ""))
        return self.touch(site, path, "added")

    def op_add_sub(self):
        r = self.r
        site = r.choice(self.sites)
        if self.allow_rootmount and r.random() < 0.25:
            path = ()
        else:
            path = self.gen_path(lo=1, hi=3, empty_ok=True)
            if path[-1] == "" and r.random() < 0.8:  # "should not end with an empty string": rare
                path = path[:-1] + (r.choice("abc"),)
        cands = [s for s in self.sites if s.level == site.level + 1 and s.at is None]
        if cands and r.random() < 0.75:
            tgt = r.choice(cands)
            robj = self.real[id(tgt)]
        else:
            tgt, robj = self.gen_sink()
        if path in site.res or path in site.sub:
            self.op_remove(site, path)
        site.sub[path] = tgt
        if isinstance(tgt, MSite):
            tgt.at = (site, path)
        self.real_add(site, path, robj)
        self.ops.append(["add_resource", site.name, list(path), tgt.name if isinstance(tgt, MSite) else tgt.id, "nested site" if isinstance(tgt, MSite) else {"PathCapable": True, "links": tgt.links}])
        self.rep.count("op_add_site" if isinstance(tgt, MSite) else "op_add_sink")
        return self.touch(site, path, "added")

    def op_remove(self, site=None, path=None):
        r = self.r
        if site is None:
            cands = [(s, p) for s in self.sites for p in list(s.res) + list(s.sub) if not (s is self.sites[0] and p == (".well-known", "core"))]
            if not cands:
                return []
            site, path = r.choice(cands)
        pre = self.attached_prefix(site)
        if path in site.res:
            del site.res[path]
            self.rep.count("op_remove_leaf")
        else:
            t = site.sub.pop(path)
            if isinstance(t, MSite):
                t.at = None
                if pre is not None:  # everything below is gone for the next request, too
                    for kind, full, _o in self._below(t, pre + path):
                        self.removed_paths.append(full)
            self.rep.count("op_remove_sub")
        arg = list(path) if r.random() < 0.5 else tuple(path)
        try:
            self.real[id(site)].remove_resource(arg)
        except Exception as e:
            self.ops.append(["remove_resource", site.name, list(path)])
            self.violation("ops/remove_resource-raises/" + type(e).__name__, "Site.remove_resource(%r) raised %r for a path that is registered" % (arg, e), traceback=self.rep.exception_witness(e))
            raise Abort()
        self.ops.append(["remove_resource", site.name, list(path)])
        return self.touch(site, path, "removed")

    def _below(self, site, pre):
        out = []
        for p in site.res:
            out.append(("leaf", pre + p, None))
        for p, t in site.sub.items():
            out.append(("sub", pre + p, None))
            if isinstance(t, MSite):
                out += self._below(t, pre + p)
        return out

    def touch(self, site, path, what):
        """request paths that probe the effect of the operation just made"""
        pre = self.attached_prefix(site)
        if pre is None:
            return []
        full = pre + path
        if what == "removed":
            self.removed_paths.append(full)
        self.fresh[full] = what
        return [full]

    # -- request path generation -----------------------------------------------------------
    def near_path(self):
        r = self.r
        reach = self.reachable()
        k = r.random()
        if (k < 0.12 or not reach) and not (self.removed_paths and k < 0.08):
            return self.gen_path(hi=5)
        if k < 0.2 and self.removed_paths:
            base = r.choice(self.removed_paths[-12:])
            return base + (self.gen_path(lo=1, hi=2) if r.random() < 0.4 else ())
        kind, full, obj = r.choice(reach)
        m = r.random()
        if kind == "leaf":
            if m < 0.5:
                return full
            if m < 0.6 and full and full[-1] != "":
                return full + ("",)
        else:
            if m < 0.15:
                return full
            if m < 0.3:
                return full + ("",)
            if m < 0.7:
                return full + self.gen_path(lo=1, hi=3)
        # neighbours
        p = list(full)
        m = r.random()
        if m < 0.25 and p:
            p.pop()
        elif m < 0.5:
            p.append(r.choice(SEGS))
        elif m < 0.7 and p:
            p[r.randrange(len(p))] = r.choice(SEGS)
        elif m < 0.85:
            p.insert(r.randrange(len(p) + 1), r.choice(SEGS))
        elif p:
            del p[r.randrange(len(p))]
        return tuple(p)

    # -- judging ---------------------------------------------------------------------------------
    def violation(self, key, what, **kw):
        v = self.rep.violations.get(key)
        full = v is None or len(v["witnesses"]) < self.rep.MAX_WITNESSES_PER_KEY
        self.rep.violation(key, what, self.witness(**kw) if full else None, self.case)

    def witness(self, **kw):
        w = {"tree": dump_tree(self.sites[0]), "last_operations": self.ops[-6:], "server": "%s port %d" % (self.ip, self.port)}
        w.update(kw)
        return w

    async def do_request(self, path, why=None):
        rep, r, rc = self.rep, self.r, self.rc
        method = 1 if r.random() < 0.85 else 2
        host_opt = "example.org" if r.random() < 0.25 else None
        query = tuple(r.sample(["u=1", "v", "w=xy"], r.choice([1, 2]))) if r.random() < 0.3 else ()
        wire_query = query  # none of these needs percent-encoding (URI escaping is C16's subject)
        opts = (((rc.URI_HOST, host_opt.encode()),) if host_opt else ()) + tuple((rc.URI_PATH, s.encode()) for s in path) + tuple((rc.URI_QUERY, q.encode()) for q in wire_query)
        tr = []
        expected = route(self.sites[0], tuple(path), tr)
        if ("run", "WKC", ()) in expected:
            return  # discovery is judged by do_wkc
        fresh = self.fresh.pop(tuple(path), None)
        del self.hlog[:]
        m = await self.client.request(method, opts)
        ran = list(self.hlog)
        code = rc.code_str(m.code)
        await self.do_direct(method, path, host_opt, query, expected, tr)
        desc = {"method": "GET" if method == 1 else "POST", "uri_path_options": list(path), "uri_host_option": host_opt, "uri_query_options": list(wire_query)}
        exp_desc = sorted(("4.04" if e == NF else "rendered by %s seeing Uri-Path %r" % (e[1], list(e[2]))) for e in expected)

        sig = ("req", len(path), sum(1 for s in path if s == ""), tuple(sorted(set(tr))), tr.count("hop"), tuple(sorted(e[0] for e in expected)), fresh, bool(host_opt), bool(query))
        rep.case(sig, nontrivial=bool(path) and bool(self.sites[0].sub or len(self.sites[0].res) > 1))
        rootmount = "rootmount" in tr

        def viol(key, what, **kw):
            self.violation(key, what, request=desc, expected_one_of=exp_desc, response_code=code, response_payload=m.payload[:40].decode("utf8", "replace"), handlers_that_ran=[{**h, "path": list(h["path"])} for h in ran], decided_by=tr, **kw)

        # -- which handler ------------------------------------------------------------
        if len(ran) > 1:
            viol("route/several-handlers-ran", "one request was rendered by %d handlers" % len(ran))
            return
        if expected == {NF}:
            rep.monitor("route_404")
            if fresh == "removed":
                rep.monitor("after_remove")
            if ran:
                key = "route/removed-registration-still-rendered" if fresh == "removed" or tuple(path) in self.removed_paths else "route/rendered-without-registration"
                viol(key, "a request whose path matches no registration (no exact resource, no nested site at a proper prefix) was rendered by %s instead of answered 4.04" % ran[0]["id"])
            elif code != "4.04":
                viol("route/unregistered-path-answered-" + code, "a request matching no registration was answered %s instead of 4.04" % code, server_log=self.errlog[-2:])
            return
        rep.monitor("route_handler")
        for t, mon in (("hop", "nested_hop"), ("several-prefixes", "longest_prefix"), ("exact-shadows-subsite", "exact_over_subsite"), ("empty-remainder-decisive", "empty_remainder_decisive")):
            if t in tr:
                rep.monitor(mon)
        if tr.count("hop") >= 2:
            rep.monitor("two_level_hop")
        if fresh == "added":
            rep.monitor("after_add")
        for t in tr:
            rep.count("trace_" + t)
        if not ran:
            if code == "4.04":
                if NF in expected:
                    rep.count("accepted_4.04_for_empty_remainder_without_subsite_root_resource")
                elif rootmount:
                    viol("route/subsite-at-empty-path-never-matched", "a nested site registered at the empty path [] (a proper prefix of every non-empty path) is never selected: 4.04 instead of delegation")
                elif fresh == "added":
                    viol("route/added-registration-not-effective", "a registration added before this request did not take effect: 4.04")
                else:
                    viol("route/registered-path-answered-4.04", "a request with a registered resource / nested site for its path was answered 4.04")
            else:
                viol("route/registered-path-answered-" + code, "no test handler ran and the answer is %s" % code, server_log=self.errlog[-2:])
            return
        h = ran[0]
        got = ("run", h["id"], h["path"])
        ids = {e[1] for e in expected if e != NF}
        if h["id"] not in ids:
            if "several-prefixes" in tr:
                key = "route/wrong-handler/not-longest-prefix"
            elif "exact-shadows-subsite" in tr:
                key = "route/wrong-handler/subsite-before-exact-match"
            elif "empty-remainder" in tr or "empty-remainder-decisive" in tr:
                key = "route/wrong-handler/empty-remainder"
            elif fresh or tuple(path) in self.removed_paths:
                key = "route/wrong-handler/stale-registration"
            else:
                key = "route/wrong-handler"
            viol(key, "the request was rendered by %s, not by the exact-match resource / the nested site at the longest proper prefix" % h["id"])
            return
        if code != ("2.05" if method == 1 else "2.04") or m.payload != h["id"].encode():
            viol("route/response-not-from-handler", "handler %s ran but the response (%s, %r) is not the one it returned" % (h["id"], code, m.payload[:20]))
        rep.monitor("stripped_path")
        if got not in expected:
            viol("route/wrong-stripped-path", "handler %s saw Uri-Path %r; the matched part removed leaves %s" % (h["id"], list(h["path"]), " or ".join(repr(list(e[2])) for e in expected if e != NF and e[1] == h["id"])))
        # -- original URI ---------------------------------------------------------------------
        rep.monitor("request_uri")
        want = compose_uri(host_opt, self.ip, self.port, path, query)
        if h["uri_exc"] is not None:
            viol("uri/get_request_uri-raises", "get_request_uri() raised %s in the handler" % h["uri_exc"], expected_uri=want)
        elif h["uri"] != want:
            viol("uri/original-uri-not-reconstructed" + ("/nested" if "hop" in tr else ""), "get_request_uri() in the handler gives %r, the client requested %r" % (h["uri"], want), expected_uri=want)

    async def do_direct(self, method, path, host_opt, query, expected, tr):
        """The same request handed to the root site's other routing entry points, Site.render() (what a wrapper
        resource or a proxy calls) and Site.needs_blockwise_assembly(): they must route like the served path."""
        import aiocoap
        from aiocoap import error
        from aiocoap.message import Direction

        rep = self.rep
        root = self.real[id(self.sites[0])]
        msg = aiocoap.Message(code=aiocoap.GET if method == 1 else aiocoap.POST, uri_path=list(path), uri_query=list(query))
        if host_opt:
            msg.opt.uri_host = host_opt
        msg.direction = Direction.INCOMING
        desc = {"method": "GET" if method == 1 else "POST", "uri_path_options": list(path), "entry": "Site.render"}
        exp_desc = sorted(("4.04" if e == NF else "rendered by %s seeing Uri-Path %r" % (e[1], list(e[2]))) for e in expected)
        del self.hlog[:]
        outcome = None
        try:
            resp = await root.render(msg)
            outcome = "response"
        except error.NotFound:
            outcome = "4.04"
        except Exception as e:
            outcome = "raised " + type(e).__name__
        ran = list(self.hlog)
        del self.hlog[:]
        rep.monitor("direct_render")

        def viol(key, what):
            self.violation(key, what, request=desc, expected_one_of=exp_desc, outcome=outcome, handlers_that_ran=[{**h, "path": list(h["path"])} for h in ran], decided_by=tr)

        if len(ran) > 1:
            viol("route-direct/several-handlers-ran", "Site.render() had one request rendered by %d handlers" % len(ran))
        elif expected == {NF}:
            if ran or outcome != "4.04":
                viol("route-direct/unregistered-path-not-404", "Site.render() of a path matching no registration gave %s (handlers run: %d) instead of NotFound" % (outcome, len(ran)))
        elif not ran:
            if not (outcome == "4.04" and (NF in expected)):
                viol("route-direct/registered-path-not-rendered", "Site.render() of a path with a registration ran no handler (%s)" % outcome)
        else:
            h = ran[0]
            if ("run", h["id"], h["path"]) not in expected:
                viol("route-direct/wrong-handler-or-stripped-path", "Site.render() had the request rendered by %s seeing Uri-Path %r" % (h["id"], list(h["path"])))
        try:
            nba = await root.needs_blockwise_assembly(msg)
            if nba not in (True, False):
                viol("route-direct/needs-blockwise-assembly-not-bool", "Site.needs_blockwise_assembly() returned %r" % (nba,))
        except Exception as e:
            outcome = "needs_blockwise_assembly raised " + type(e).__name__
            viol("route-direct/needs-blockwise-assembly-raises", "Site.needs_blockwise_assembly() raised %r for a routable or unroutable path" % (e,))

    async def do_wkc(self, forced_query=None):
        from harness import reflink

        rep, r, rc = self.rep, self.r, self.rc
        model = [(reflink.Link(href_of(c), tuple(a)), rm) for c, a, rm in listing(self.sites[0])]
        all_links = [l for l, _rm in model]
        query = self.gen_query(all_links) if forced_query is None else forced_query
        opts = tuple((rc.URI_PATH, s.encode()) for s in (".well-known", "core")) + tuple((rc.URI_QUERY, q.encode()) for q in query)
        if r.random() < 0.2:
            # the same path in its abbreviated form (Uri-Path-Abbrev 0, draft-ietf-core-uri-path-abbrev; option 13)
            opts = ((13, b""),) + tuple((rc.URI_QUERY, q.encode()) for q in query)
            rep.monitor("wkc_by_path_abbreviation")
        del self.hlog[:]
        first, body = await self.client.get_all_blocks(opts)
        code = rc.code_str(first.code)
        desc = {"uri_path_options": [".well-known", "core"], "uri_query_options": list(query)}
        judged = len(query) <= 1

        def subset(links, flag_value=None):
            if flag_value is not None:  # a value-less attribute (";obs") read as carrying the empty string
                read = [reflink.Link(l.href, tuple((k, flag_value if v is None else v) for k, v in l.params)) for l in links]
                if len(query) == 1:
                    return [l for l, l2 in zip(links, read) if reflink.matches(l2, name, pat)]
                return [l for l, l2 in zip(links, read) if all(reflink.matches(l2, *q.split("=", 1)) for q in query)]
            if len(query) == 1:
                if pat == "*" and name != "href":
                    # RFC 6690 section 4.1: "?foo=* matches a link-value that has a target attribute named foo",
                    # whether or not it comes with a value (";obs")
                    return [l for l in links if reflink.has(l, name)]
                return [l for l in links if reflink.matches(l, name, pat)]
            # several parameters are outside RFC 6690 ("one parameter at a time"): statistic only
            return [l for l in links if all(reflink.matches(l, *q.split("=", 1)) for q in query)]

        if len(query) == 1:
            name, pat = query[0].split("=", 1)
        want = subset(all_links)

        def viol(key, what, **kw):
            self.violation(key, what, request=desc, response_code=code, payload=body[:1500].decode("utf8", "replace"), expected_links=sorted(self.fmt(l) for l in want), **kw)

        if code != "2.05":
            if len(query) == 1 and code == "5.00" and pat.endswith("*") and any(reflink.has(l, name) and not reflink.values(l, name) for l in all_links):
                rep.monitor("wkc_filter")
                viol("wkc/filter/prefix-pattern-on-valueless-attribute-answered-5.00", "?%s=%s is answered 5.00 when a listed link carries %r without a value (None.startswith)" % (name, pat, name), server_log=self.errlog[-1:])
            elif judged:
                viol("wkc/answered-" + code, "GET /.well-known/core was answered %s" % code, server_log=self.errlog[-2:])
            return
        try:
            got_links = reflink.parse(body)
        except reflink.Malformed as e:
            if judged:
                viol("wkc/payload-not-rfc6690", "the payload is not RFC 6690 link-format: %s" % e)
            return
        got_links = [l for l in got_links if ("rel", "impl-info") not in l.params]
        got = {reflink.key(l) for l in got_links}
        exp = {reflink.key(l) for l in want}
        if not judged:
            rep.count("multi_parameter_filter_" + ("agrees_with_conjunction" if got == exp else "differs_from_conjunction"))
            return
        nested = any(isinstance(t, MSite) or t.links for t in self.sites[0].sub.values())
        if not query:
            rep.monitor("wkc_listing")
            if nested:
                rep.monitor("wkc_listing_nested")
            if any(l.hidden for s in self.sites if self.attached_prefix(s) is not None for l in s.res.values()):
                rep.monitor("wkc_hidden")
            sig = ("wkc", min(len(exp), 12), depth_of(self.sites[0]), nested)
        else:
            rep.monitor("wkc_filter")
            if pat.endswith("*"):
                rep.monitor("wkc_filter_star")
            patclass = "empty" if pat == "" else "star-only" if pat == "*" else ("prefix" if pat.endswith("*") else "exact") + ("-with-space" if " " in pat else "")
            sig = ("wkcf", name, patclass, min(len(exp), 6), min(len(all_links), 12) // 3, depth_of(self.sites[0]))
            rep.count("filter_%s_%s" % (name, "nonempty" if exp else "empty"))
        rep.case(sig, nontrivial=len(all_links) >= 2)
        if got == exp:
            return
        if query and got == {reflink.key(l) for l in subset(all_links, flag_value="")}:
            rep.count("filter_valueless_attribute_read_as_empty_string")  # RFC 6690 does not say; accepted
            return
        missing, extra = sorted(exp - got), sorted(got - exp)
        detail = {"missing": [self.fmtk(k) for k in missing], "unexpected": [self.fmtk(k) for k in extra]}
        if query and pat == "*" and name != "href" and not extra and got == {reflink.key(l) for l in all_links if reflink.matches(l, name, pat)}:
            viol("wkc/filter/star-does-not-match-valueless-attribute", "?%s=* does not return the links that carry the attribute %r without a value" % (name, name), **detail)
            return
        # -- classify by mechanism ---------------------------------------------------------------
        if any(rm for _l, rm in model):
            alt = {reflink.key(l) for l in subset([reflink.Link(h, tuple(a)) for h, a in listing_hrefs_if_prefix_joined_textually(self.sites[0])])}
            if alt != exp:
                viol("wkc/subsite-at-empty-path-href", "resources below a nested site registered at the empty path [] are listed with an extra '/' in their href ('//z' for /z), not with their full path", missing=[self.fmtk(k) for k in sorted(exp - alt)], unexpected=[self.fmtk(k) for k in sorted(alt - exp)])
                if got == alt:
                    return
                exp = alt  # judge the rest relative to what this one mechanism explains
                missing, extra = sorted(exp - got), sorted(got - exp)
                detail = {"missing": [self.fmtk(k) for k in missing], "unexpected": [self.fmtk(k) for k in extra], "note": "relative to the listing with the empty-path-subsite hrefs as served"}
        if not query:
            hrefs_got, hrefs_exp = {k[0] for k in got}, {k[0] for k in exp}
            if hrefs_got != hrefs_exp:
                hidden_hrefs = {href_of(c) for c, _l in self.hidden_full()}
                if (hrefs_got - hrefs_exp) and (hrefs_got - hrefs_exp) <= hidden_hrefs:
                    key = "wkc/listing/hidden-resource-listed"
                elif nested and hrefs_got - hrefs_exp and hrefs_exp - hrefs_got:
                    key = "wkc/listing/wrong-full-path"
                elif hrefs_exp - hrefs_got:
                    key = "wkc/listing/registered-resource-missing"
                else:
                    key = "wkc/listing/unregistered-link"
            else:
                key = "wkc/listing/attributes-differ"
            viol(key, "the /.well-known/core listing differs from the registered, non-hidden resources with their full paths", **detail)
            return
        if pat in ("", "*") and name != "href" and not missing and all(not any(p[0] == name for p in k[1]) for k in extra):
            viol("wkc/filter/empty-pattern-matches-absent-attribute", "?%s=%s returns links that do not carry the attribute %r at all" % (name, pat, name), **detail)
            return
        if name == "title":
            viol("wkc/filter/single-valued-attribute-compared-per-character", "?title=... is compared with each character of the title, not with the title", **detail)
            return
        viol("wkc/filter/result-differs/" + (name if name in ("rt", "if", "ct", "href") else "other-attribute"), "the filter query does not return exactly the matching subset (RFC 6690 section 4.1)", **detail)

    def hidden_full(self):
        out = []

        def walk(site, pre):
            for p, l in site.res.items():
                if l.hidden:
                    out.append((pre + p if (p or not pre) else pre + ("",), l))
            for p, t in site.sub.items():
                if isinstance(t, MSite):
                    walk(t, pre + p)

        walk(self.sites[0], ())
        return out

    @staticmethod
    def fmt(l):
        return "<%s>" % l.href + "".join(";%s" % k if v is None else ';%s="%s"' % (k, v) for k, v in l.params)

    @staticmethod
    def fmtk(k):
        return "<%s>" % k[0] + "".join(";%s%s" % (n, v) for n, v in k[1])

    def gen_query(self, links):
        from harness import reflink

        r = self.r
        k = r.random()
        if k < 0.3:
            return ()
        n = 2 if k > 0.96 else 1
        out = []
        for _ in range(n):
            name = r.choices(["rt", "if", "ct", "href", "title", "sz", "foo", "obs", "@PY"], [16, 8, 8, 12, 4, 2, 2, 1, 3])[0]
            if name == "@PY":
                # attribute names no link carries, among them names that mean something on the Python objects the
                # implementation happens to represent links with: a filter on them matches nothing
                name = r.choice(["__module__", "__dict__", "__class__", "__doc__", "__weakref__", "attr_pairs", "to_py", "get_target", "get_context", "links", "as_link_format", "rel", "anchor", "nosuchattr", "hreflang"])
                out.append("%s=%s" % (name, r.choice(["aiocoap.util.linkformat", "aiocoap*", "href", "attr*", "x", "*", "builtins*", "", "<*", "None"])))
                continue
            pool = []
            for l in links:
                if name == "href":
                    pool.append(l.href)
                else:
                    pool.extend(reflink.values(l, name))
            m = r.random()
            if not pool or m < 0.1:
                base = r.choice(["zz", "x", "/a", "4", "core"])
            else:
                base = r.choice(pool)
                if " " in base and r.random() < 0.7:
                    base = r.choice(base.split(" "))
            if r.random() < 0.2 and any(c.isalpha() for c in base):
                # the same value in another case: values (resource types, interface names, titles, paths) are
                # compared as they are, a twin that differs in case only is another value
                base = r.choice([base.upper(), base.lower(), base.swapcase(), base.capitalize()])
                self.rep.monitor("wkc_filter_case_variant")
            m = r.random()
            if m < 0.35:
                pat = base
            elif m < 0.55:
                pat = base + "*"
            elif m < 0.8:
                pat = base[: r.randrange(len(base) + 1)] + "*"
            elif m < 0.88:
                pat = base[: r.randrange(len(base) + 1)]
            elif m < 0.92:
                pat = "*"
            elif m < 0.94:
                pat = ""
            else:
                pat = base + r.choice(["z", " ", "/"]) + r.choice(["", "*"])
            out.append("%s=%s" % (name, pat))
        return tuple(out)

    # -- driver ----------------------------------------------------------------------------------------
    async def setup(self, wkc=True):
        import logging
        from harness import simnet, refcodec as rc

        r = self.r
        self.rc = rc
        self.ip, self.port = r.choice([("10.0.0.1", 5683), ("10.0.0.1", 5683), ("10.0.0.1", 61616), ("2001:db8::1", 5683), ("2001:db8::7", 5684)])
        self.net = simnet.SimNet(self.loop)
        self.errlog = []
        root = self.new_site(0)
        R = self.cls["R"]
        if wkc:
            k = r.random()
            kw = {} if k < 0.6 else {"impl_info": None} if k < 0.8 else {"impl_info": "https://example.org/impl#v1"}
            real_wkc = R.WKCResource(self.real[id(root)].get_resources_as_linkheader, **kw)
            root.res[(".well-known", "core")] = MLeaf("WKC", (("ct", "40"),), False)
            self.real[id(root)].add_resource([".well-known", "core"], real_wkc)
        self.srv = await simnet.make_context(self.net, self.ip, self.port, self.real[id(root)], loggername="c17-server")
        lg = logging.getLogger("c17-server")
        lg.setLevel(logging.ERROR)
        lg.propagate = False
        outer = self

        class H(logging.Handler):
            def emit(self, record):
                try:
                    outer.errlog.append(self.format(record)[-1500:])
                except Exception:
                    pass

        for h in list(lg.handlers):
            lg.removeHandler(h)
        self.loghandler = H()
        lg.addHandler(self.loghandler)
        self.client = RawClient(self.net, self.loop, simnet.addr(self.ip, self.port))

    async def teardown(self):
        import logging

        try:
            await self.srv.shutdown()
        finally:
            self.client.peer.close()
            logging.getLogger("c17-server").removeHandler(self.loghandler)

    async def run_random(self):
        r = self.r
        await self.setup()
        try:
            levels = r.choice([[], [1], [1, 1], [1, 2], [1, 2, 3], [1, 1, 2, 3], [1, 2, 2, 3, 3], [1, 1, 2, 2, 3]])
            for lv in levels:
                self.new_site(lv)
            # initial tree
            for _ in range(r.choice([0, 2, 4, 8, 14])):
                self.op_add_leaf() if r.random() < 0.7 else self.op_add_sub()
            for _ in range(self.steps):
                k = r.random()
                probes = []
                if k < 0.16:
                    probes = self.op_add_leaf()
                elif k < 0.24:
                    probes = self.op_add_sub()
                elif k < 0.33:
                    probes = self.op_remove()
                elif k < 0.45:
                    await self.do_wkc()
                else:
                    await self.do_request(self.near_path())
                for p in probes:
                    # the effect must be there for the *next* request
                    if r.random() < 0.8:
                        await self.do_request(p if r.random() < 0.7 else p + (r.choice(SEGS),))
                    elif r.random() < 0.5:
                        await self.do_wkc(forced_query=())
            await self.do_wkc(forced_query=())
            if self.sweep:
                import itertools

                for n in range(4):
                    for path in itertools.product(SEGS, repeat=n):
                        await self.do_request(path)
                        self.rep.monitor("path_sweep")
        finally:
            await self.teardown()

    # -- fixed, deterministic histories (each run re-observes listed findings) ------------------------------
    async def run_fixed(self, name):
        await self.setup()
        root = self.sites[0]
        try:
            if name == "rootmount":
                s1 = self.new_site(1)
                self.force_leaf(s1, ("z",), {"rt": "x"})
                self.force_sub(root, (), s1)
                await self.do_request(("z",))
                await self.do_wkc(forced_query=())
            elif name == "filter-absent-attribute":
                self.force_leaf(root, ("a",), {"rt": "x"})
                self.force_leaf(root, ("b",), {})
                await self.do_wkc(forced_query=("rt=*",))
                await self.do_wkc(forced_query=("rt=",))
                await self.do_wkc(forced_query=("rt=x",))
            elif name == "filter-title":
                self.force_leaf(root, ("a",), {"title": "temp"}, custom=True)
                self.force_leaf(root, ("b",), {"title": "t"}, custom=True)
                await self.do_wkc(forced_query=("title=temp",))
                await self.do_wkc(forced_query=("title=t",))
            elif name == "filter-valueless":
                vid = self.vid("L")
                root.res[("o",)] = MLeaf(vid, (("obs", None),), False)
                self.real[id(root)].add_resource(["o"], self.cls["ObsLeaf"](vid))
                self.ops.append(["add_resource", "S0", ["o"], vid, {"params": [["obs", None]]}])
                await self.do_wkc(forced_query=("obs=1",))
                await self.do_wkc(forced_query=("obs=*",))
            elif name == "docstring-batch":
                batch = self.new_site(1)
                self.force_leaf(batch, ("light1",), {})
                self.force_leaf(batch, ("light2",), {})
                self.force_leaf(batch, (), {})
                self.force_sub(root, ("batch",), batch)
                for p in [("batch", "light1"), ("batch", "light2"), ("batch", ""), ("batch",), ("batch", "light3"), ("batch", "light1", "")]:
                    await self.do_request(p)
                await self.do_wkc(forced_query=())
                await self.do_wkc(forced_query=("href=/batch/*",))
        finally:
            await self.teardown()

    def force_leaf(self, site, path, attrs, custom=False):
        vid = self.vid("L")
        mp = [(k, str(v)) for k, v in attrs.items()]
        if custom:
            rl = self.cls["CustomLeaf"](vid, dict(mp))
        else:
            rl = self.cls["Leaf"](vid)
            for k, v in attrs.items():
                setattr(rl, "if_" if k == "if" else k, v)
        site.res[path] = MLeaf(vid, mp, False)
        self.real[id(site)].add_resource(list(path), rl)
        self.ops.append(["add_resource", site.name, list(path), vid, {"params": mp}])

    def force_sub(self, site, path, tgt):
        site.sub[path] = tgt
        tgt.at = (site, path)
        self.real[id(site)].add_resource(list(path), self.real[id(tgt)])
        self.ops.append(["add_resource", site.name, list(path), tgt.name, "nested site"])


def run_shard(shard, rep, only=None):
    from harness import vloop, reflink, refcodec

    assert reflink.selftest() and refcodec.selftest()
    vloop.install_time()
    import aiocoap  # noqa: F401  (after install_time)

    todo = []
    if shard["index"] == 0 or only is not None:
        todo += [["fixed", n] for n in FIXED]
    todo += [["scn", k] for k in range(shard["n"])]
    for case in todo:
        if only is not None and only != case:
            continue
        # one loop per history: the 247 s exchange-lifetime timers of a finished history would otherwise
        # pile up in the loop (virtual time advances only milliseconds per request) and keep every
        # context alive
        loop = vloop.new_loop()
        try:
            if case[0] == "fixed":
                scn = Scenario(rep, loop, random.Random(17), case)
                coro = scn.run_fixed(case[1])
            else:
                k = case[1]
                r = random.Random(shard["seed"] * 1_000_003 + k)
                random.seed(shard["seed"] * 7919 + k)  # aiocoap draws MIDs/tokens from `random`
                scn = Scenario(rep, loop, r, case, allow_rootmount=(k % 16 == 5), steps=r.choice([30, 60, 60, 90]), sweep=(k % 8 == 3))
                coro = scn.run_random()
            try:
                loop.run_until_complete(coro)
            except Abort:
                rep.count("history_aborted_after_registration_api_exception")
            except NoAnswer as e:
                rep.inconc("case %r: %s" % (case, e))
            except (vloop.Hang, vloop.HorizonExceeded) as e:
                rep.inconc("case %r: virtual-time watchdog %r" % (case, e))
                break
            if case[0] == "scn" and case[1] < 2 and shard["index"] == 0:
                rep.sample({"class": "history", "first_operations": scn.ops[:8], "final_tree": dump_tree(scn.sites[0])})
            if loop.exceptions:
                rep.count("loop_exceptions", len(loop.exceptions))
        finally:
            vloop.close_loop(loop)
