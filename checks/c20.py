"""C20 — resource directory: lookups list exactly the live registrations with the data of their latest
successful write; one registration per (ep, d); stable and unshared locations; 4.xx leaves the directory unchanged.

The real `aiocoap.cli.rd.StandaloneResourceDirectory` runs inside a real server Context on the simulated network on
virtual time. 1-3 raw registrants (refcodec) drive generated histories; after EVERY step the endpoint lookup, the
resource lookup and every known registration resource are fetched, parsed by the independent RFC 6690 parser
(harness/reflink.py) and compared with a response-driven reference model (harness/c20_ref.py): the model applies a
request iff the directory answered 2.xx.

Registrations are made both ways the directory offers: with a link-format body to the registration resource, and by
simple registration (RFC 9176 5.1; rd.py SimpleRegistration / SimpleRegistrationWKC): a POST without body to
/.well-known/rd (or aiocoap's legacy /.well-known/core), upon which the directory -- composed with its own context as
cli/rd.py Main does -- fetches /.well-known/core from the registrant. The raw registrants serve that fetch themselves
(Runner._serve) with a scripted reaction: link-format (piggybacked, separate, after a lost first transmission, or
block-wise), an empty link list, an error code (with or without a link-format body), a wrong or missing
Content-Format, an unparsable payload, a Reset, or nothing at all. A simple registration is a registration like any
other in the model: it takes the links that were fetched, the registrant's address as base, the location the
(ep, d) had before, and its lifetime runs from some instant between the POST and the directory's answer (Reg.slack).

About half of the histories also carry "odd" content -- what a registrant is free to send although link-format or RFC 3986
cannot carry it as it stands: parameter names that are no RFC 6690 parmname (up to a whole foreign link), parameter values,
endpoint names and link attribute values with backslashes, quotes and the link-format delimiters (links written with
quoted-pairs, or bare after the '='), parameters and link attributes without a value, a `base` / link target / anchor that has
no RFC 3986 authority, a `base` without a value, updates that name the very base the directory lists, a `base` or link
target with characters that delimit URIs (blank, control, '<', '>', '"': the directory writes base + reference between '<'
and '>'), bases / relative references whose resolution (RFC 3986 5.2) has to keep an empty path segment or an empty query, link
attributes (anchor, rt, if, ct, sz, title, rel, hreflang) without a value or with an empty one, and targets / anchors that are
left, once their dot segments are removed, without authority and with a path beginning with "//". The directory may
refuse such a write (4.00: nothing changes) or accept it; the oracle is on what the lookups say afterwards: they must be
answered 2.05 with link-format that parses and lists exactly what the model holds (the values as they were MEANT, independent
of any parser: oddlinkset writes the payload from the structure), and filters on such names and values must work.

Where the unchanged tree deviates in an already understood way the deviation is reported under its mechanism key and the
model is re-synchronised to the observed state, so that the rest of the history is still judged.
"""

import random

ID = "C20"
LEVEL = "exploration"
TECHNIQUE = (
    "runtime monitoring on a virtual-time simulated network: the real RD site in a real server Context, 1-3 raw registrants; generated "
    "histories of register / re-register (with body, and by simple registration where the directory fetches /.well-known/core from the raw "
    "registrant, which answers with link-format piggybacked / separate / after a lost transmission / block-wise, an empty list, an error, a wrong or "
    "missing Content-Format, garbage, a Reset or not at all) / POST and PUT update / DELETE / filtered and paged lookups / idle steps across lt and "
    "lt+grace, with valid and invalid parameters; in half of the histories also odd content (parameter names that are no parmname, values / endpoint "
    "names / link attribute values with backslashes, quotes and delimiters, parameters and link attributes without a value, base / link target / anchor without "
    "an RFC 3986 authority, base without a value, updates naming the base the directory lists, base / link target with URI-delimiting characters, bases with an empty path segment "
    "or a query or without authority under relative references with empty segments and empty queries, link attributes incl. anchor without a value or empty, targets whose dot-free path begins with '//' without authority) and filters on those names and values; oracle = response-driven reference model keyed by (ep, d), compared after every step with endpoint lookup, "
    "resource lookup and every registration resource as parsed by an independent RFC 6690 parser and RFC 3986 resolver"
)
LEVEL_TEXT = (
    "After every step of every history the complete externally visible state of the directory (both lookups and all known registration "
    "resources, live and freed) is compared with the model; a request answered 4.xx must leave that state identical, a 2.01 must obey the "
    "location rules (for a simple registration, whose 2.04 names no location, on the location the endpoint lookup shows for that (ep, d)), and "
    "liveness must follow last successful write + lt + grace on the virtual clock (a write answered 5.xx is not a successful one either). "
    "Whatever a write contained, every later lookup must be answered 2.05 with link-format that the independent parser reads and that lists "
    "exactly the model's entries, with the parameter and attribute values as they were meant, every target a URI-Reference (no character that delimits URIs, "
    "RFC 3986 appendix C) and every target and anchor resolved against the registration base exactly as RFC 3986 5.2 says (independent resolver in harness/c20_ref.py)."
)
LEVEL_NOTE = (
    "Trusted: harness/c20_ref.py (model, RFC 3986 resolution), harness/reflink.py, simnet, refcodec. lt is not visible in lookups (RFC 9176 6.3), "
    "so a lifetime changed by a rejected request is only seen at the next boundary crossing (when several rejected requests could explain it the "
    "violation is filed under one answered 5.xx before one answered 4.xx, then the first of ALT_ORDER, and the witness lists all); instants within 0.5 s of a model boundary are not sampled. "
    "A simple registration is carried out at some instant between the registrant's POST and the directory's answer (up to 93 s when the fetch is "
    "not answered): the model's clock follows the virtual clock, what ran out meanwhile is gone, the new lifetime is taken from the answer and the "
    "interval [POST, answer] + lt + grace is not sampled; whether a registration that ran out during the fetch was re-registered or created anew is "
    "left open. A registrant that does not answer the fetch may itself be left without an answer (aiocoap stops serving a peer it found "
    "unreachable; counted as simple_registration_unanswered_after_unanswered_fetch): the directory must then look unchanged (keys unanswered-*/...); "
    "no answer although the registrant answered the fetch is a violation (no-response/...). An accepted simple registration whose fetch was not "
    "answered with usable link-format, or that carried base / proxy, has no defined meaning: counted, history ended, pinned by the fixed script. "
    "Re-use of a freed location for a later registration of another (ep, d) is counted, not judged (JUDGE_LOCATION_REUSE). 5.xx answers are counted "
    "and the model is re-synchronised from the observation (the statement speaks about 4.xx). Acceptance is pinned by a fixed script only. "
    "Understood deviations (mechanism keys rejected-*/..., expiry/lifetime-set-by-rejected-* and -failed-* (request answered 5.xx), lookup-res/links-not-resolved-against-base) "
    "re-synchronise the model to the observed state so that the rest of the history is still judged; any other difference ends the history. "
    "Odd content is judged on the lookups only, never on the response code of the write (refusing with 4.00 and accepting-and-escaping are both right); a mismatch "
    "is NAMED after the odd content of the registrations concerned (linkformat-injection/<parameter-name|parameter-value|link-attribute-value>/..., "
    "unresolvable-uri/<base|link-target>/..., valueless-attribute/..., target-injection/<base|link-target>/..., resolution-not-rfc3986/<empty-path-segment|empty-query-reference>/..., valueless-anchor/..., path-as-authority/...) by harness/c20_ref.py features(), which plays no part in deciding that there is a mismatch. "
    "Link sets written bare after '=' (not RFC 6690) mean what they were written from if the directory accepts them. A value-less search criterion is not generated."
)
RULE = (
    "one case = one history of 5-40 steps over <=4 endpoint names x <=2 sectors from <=3 registrants (plus 10 fixed scripts in shard 0); about an "
    "eighth of the steps are simple registrations (10 reactions of the registrant to the directory's fetch x 5 ways of delivering an answer). "
    "In about half of the histories a third of the writes carry one of 44 odd parameter variants, over half of the bodies / fetched link sets one of 23 odd link sets, "
    "one endpoint name may need escaping, every eighth update names the listed base, and half of the filtered lookups search the odd names and values. "
    "Non-trivial = the history contains a re-registration (either way), a rejected write to a live registration, an observed expiry or a request to a "
    "freed location; distinct = distinct sequences of (operation class, parameter variant, body variant or fetch reaction and delivery, response class)"
)
ASSUMPTIONS = [
    "grace period read from CommonRD.Registration.grace_period at run time; default lifetime 90000 s (RFC 9176)",
    "paths of the directory and lookup resources are taken from GET /.well-known/core?rt=core.rd*",
    "requests are processed one at a time (a registrant waits for each response)",
    "the directory answers a simple registration within 100 s (it gives up on an unanswered fetch after at most MAX_TRANSMIT_WAIT = 93 s, RFC 7252 4.8.2)",
    "the directory fetches /.well-known/core anew for every simple registration (rd.py: 'Simple registrations don't cache'); an accepted one without a fetch ends the history uninterpreted",
]
REQUIRED_MONITORS = {
    # simple_registration: simple-registration steps whose outcome was compared with the model; _listed: those answered 2.xx (fetched links,
    # base, location, lifetime judged); _failed_fetch: those whose fetch got no usable link-format and that were not answered 2.xx
    # write_*: writes to (or creating) a registration that carried the odd content named, whatever the answer, followed by a complete
    # comparison; update_naming_listed_base: updates with base=<what the endpoint lookup shows> (_default_base: the registration had no
    # explicit base); filter_on_*: filtered lookups compared with the model whose search key some live registration carries without a
    # value / whose search value contains a backslash or quote (_matching: and the model expects entries)
    # resolution_with_empty_segment_or_query_listed: live registrations, per complete comparison, whose expected targets / anchors depend on
    # RFC 3986 5.2 keeping an empty path segment or an empty query
    "quick": {"lookup_ep_matches_model": 15000, "lookup_res_matches_model": 15000, "registration_resource_matches_model": 25000, "unchanged_after_4xx": 6000, "location_rules": 3000, "expiry": 4000, "acceptance_pins": 30, "lookup_filter": 1500, "lookup_filter_two_criteria": 300, "pagination": 500, "simple_registration": 2500, "simple_registration_listed": 1000, "simple_registration_failed_fetch": 1000,
              "write_parameter_name_not_a_parmname": 400, "write_parameter_value_needing_escapes": 450, "write_parameter_without_value": 300, "write_base_not_a_uri": 200, "write_base_without_value": 90, "write_links_needing_escapes": 900, "write_link_attributes_without_value": 130, "write_link_target_not_a_uri": 450, "update_naming_listed_base": 400, "update_naming_listed_default_base": 300, "filter_on_name_registered_without_value": 60, "filter_on_value_needing_escapes": 220, "filter_on_value_needing_escapes_matching": 15,
              "write_base_with_uri_delimiter": 250, "write_link_target_with_uri_delimiter": 300, "write_base_with_empty_segment_or_query": 250, "write_relative_links_with_empty_segment_or_query": 350, "resolution_with_empty_segment_or_query_listed": 300,
              "write_link_anchor_without_value": 200, "write_link_attributes_empty_or_without_value": 200, "write_link_target_path_with_leading_double_slash": 300},
    "thorough": {"lookup_ep_matches_model": 500000, "lookup_res_matches_model": 500000, "registration_resource_matches_model": 800000, "unchanged_after_4xx": 200000, "location_rules": 100000, "expiry": 120000, "acceptance_pins": 30, "lookup_filter": 50000, "lookup_filter_two_criteria": 10000, "pagination": 15000, "simple_registration": 100000, "simple_registration_listed": 40000, "simple_registration_failed_fetch": 40000,
                 "write_parameter_name_not_a_parmname": 16000, "write_parameter_value_needing_escapes": 18000, "write_parameter_without_value": 12000, "write_base_not_a_uri": 8000, "write_base_without_value": 3600, "write_links_needing_escapes": 36000, "write_link_attributes_without_value": 5200, "write_link_target_not_a_uri": 18000, "update_naming_listed_base": 16000, "update_naming_listed_default_base": 12000, "filter_on_name_registered_without_value": 2400, "filter_on_value_needing_escapes": 8800, "filter_on_value_needing_escapes_matching": 600,
                 "write_base_with_uri_delimiter": 10000, "write_link_target_with_uri_delimiter": 12000, "write_base_with_empty_segment_or_query": 10000, "write_relative_links_with_empty_segment_or_query": 14000, "resolution_with_empty_segment_or_query_listed": 12000,
                 "write_link_anchor_without_value": 8000, "write_link_attributes_empty_or_without_value": 8000, "write_link_target_path_with_leading_double_slash": 12000},
}

JUDGE_LOCATION_REUSE = False  # see do_reg: count (False) or report (True) the re-use of a freed location for another (ep, d)

PEERS = [("10.0.0.2", 40000), ("10.0.0.3", 5683), ("2001:db8::2", 61616)]
EPS = ["node1", "n2", "e-3.x", "sp ace"]
SECTORS = [None, "x"]

# name -> (extra Uri-Query options, class)   class: valid | invalid | either | 5xx (known to hit an unhandled exception)
REG_PV = {
    "plain": ([], "valid"),
    "lt60": (["lt=60"], "valid"),
    "lt120": (["lt=120"], "valid"),
    "lt1": (["lt=1"], "valid"),
    "lt-huge": (["lt=4294967295"], "valid"),
    "base-v6": (["base=coap://[2001:db8::1]"], "valid"),
    "base-path": (["base=coap://host.example:61616/p/q"], "valid"),
    "base-tcp": (["base=coap+tcp://h.example/dev/"], "valid"),
    "extra": (["foo=bar"], "valid"),
    "extra-multi": (["foo=bar", "foo=baz", "et=oic.d.sensor"], "valid"),
    "lt60+extra": (["lt=60", "foo=bar"], "valid"),
    "lt60+base": (["base=coap://[2001:db8::7]:1234/x/", "lt=60"], "valid"),
    "flag": (["flag"], "either"),
    "lt0": (["lt=0"], "either"),
    "base-unknown-scheme": (["base=coap+x://h.example/p/"], "either"),
    "lt-alpha": (["lt=abc"], "invalid"),
    "lt-empty": (["lt="], "invalid"),
    "lt-float": (["lt=60.5"], "invalid"),
    "lt-repeated": (["lt=60", "lt=70"], "invalid"),
    "base-repeated": (["base=coap://a.example", "base=coap://b.example"], "invalid"),
    "reserved-page": (["page=1"], "invalid"),
    "reserved-count": (["count=2"], "invalid"),
    "reserved-rt": (["rt=x"], "invalid"),
    "reserved-href": (["href=/x"], "invalid"),
    "reserved-anchor": (["anchor=/y"], "invalid"),
    "extra+lt-alpha": (["foo=zzz", "lt=abc"], "invalid"),
    "lt-novalue": (["lt"], "5xx"),
    # aiocoap's proxying extension (not enabled in the directory under test; only offered to the simple registration,
    # whose fetch is then addressed differently): expected to be refused, without a defined meaning if accepted
    "proxy": (["proxy=yes"], "ext"),
}
# "odd": content a registrant is free to send and that link-format or RFC 3986 cannot carry as it stands -- parameter
# names that are no RFC 6690 parmname (up to a complete foreign link smuggled in), values with the characters
# link-format quotes or escapes, parameters without a value, a `base` that is no URI (RFC 3986 3.2 authority) or has no
# value. The directory may refuse (4.00: nothing changes) or accept; what it accepted it has to list faithfully in
# answers that still parse, and every lookup has to keep working. Judged on the lookups, never on the response code.
ODD_PV = {
    "name-foreign-link": (["x,</reg/9/>;ep=ghost"], "odd"),
    "name-empty": (["=x"], "odd"),
    "name-semicolon": (["a;b=c"], "odd"),
    "name-space": (["a b=c"], "odd"),
    "name-quote": (['a"b=c'], "odd"),
    "name-angle": (["<a>=c"], "odd"),
    "name-slash": (["a/b=c"], "odd"),
    "name-nonascii": (["n\u00e9=c"], "odd"),
    "name-comma-novalue": (["a,b"], "odd"),
    "value-backslash-end": (["foo=x\\"], "odd"),
    "value-backslash-mid": (["foo=a\\b"], "odd"),
    "value-backslash-quote": (['foo=a\\"b'], "odd"),
    "value-backslash-only": (["foo=\\"], "odd"),
    "value-two-backslashes": (["foo=bar", "foo=c\\\\"], "odd"),
    "value-quote": (['foo=say "hi"'], "odd"),
    "value-delimiters": (["foo=a,b;c=<d>"], "odd"),
    "value-empty": (["foo="], "odd"),
    "value-nonascii": (["foo=gr\u00fc\u00df gott"], "odd"),
    "et-backslash+lt60": (["lt=60", "et=oic\\d"], "odd"),
    "if-novalue": (["if"], "odd"),
    "if-novalue+lt60": (["lt=60", "if"], "odd"),
    "obs-novalue": (["obs"], "odd"),
    "base-bracket-open": (["base=coap://["], "odd"),
    "base-v6-unclosed+lt60": (["lt=60", "base=coap://[::1"], "odd"),
    "base-bracket-no-address": (["base=coap://[zz]/p/"], "odd"),
    "base-bracket-close-only": (["base=coap://h.example]/x"], "odd"),
    "base-not-ascii-compatible": (["base=coap://ex\u2100mple/"], "odd"),
    "base-novalue": (["base"], "odd"),
    "lt5+base-novalue": (["lt=5", "base"], "odd"),
    # a base with characters that delimit a URI (RFC 3986 appendix C): every link of the endpoint is listed as <base + reference>
    "base-foreign-link": (["base=coap://h.example/a>,<coap://victim.example/"], "odd"),
    "base-gt": (["base=coap://h.example/a>b/"], "odd"),
    "base-lt+lt60": (["lt=60", "base=coap://h.example/a<b/"], "odd"),
    "base-quote": (['base=coap://h.example/a"b/'], "odd"),
    "base-space": (["base=coap://h.example/a b/"], "odd"),
    "base-tab": (["base=coap://h.example/a\tb/"], "odd"),
    "base-newline": (["base=coap://h.example/a\nb/"], "odd"),
    "base-comma": (["base=coap://h.example/a,b;c/"], "odd"),
    # bases whose path has an empty segment or that carry a query: resolving relative references against them (RFC 3986 5.2)
    "base-empty-segment": (["base=coap://h.example/fw//v2/"], "odd"),
    "base-empty-segment-last+lt60": (["lt=60", "base=coap://h.example/a/b//"], "odd"),
    "base-empty-segment-first": (["base=coap://h.example//x/y"], "odd"),
    "base-query": (["base=coap://h.example/p/q?x=1"], "odd"),
    "base-query-dir+lt120": (["lt=120", "base=coap://h.example/p/?x=1&y"], "odd"),
    # a base without authority: relative references that climb out of it and go on with an empty segment ("../..//y")
    "base-no-authority": (["base=foo:/a/b/"], "odd"),
}
DELIMITER_PV = ["base-foreign-link", "base-gt", "base-lt+lt60", "base-quote", "base-space", "base-tab", "base-newline"]
RESOLUTION_PV = ["base-empty-segment", "base-empty-segment-last+lt60", "base-empty-segment-first", "base-query", "base-query-dir+lt120", "base-no-authority", "base-path", "base-tcp", "lt60+base", "base-comma"]
REG_PV.update(ODD_PV)
REG_ODD = list(ODD_PV)
REG_VALID = [k for k, v in REG_PV.items() if v[1] == "valid"]
REG_SHORT = ["lt60", "lt60", "lt120", "lt1", "lt60+extra", "lt60+base", "plain", "extra", "base-v6"]
REG_INVALID = [k for k, v in REG_PV.items() if v[1] == "invalid"]
REG_EITHER = [k for k, v in REG_PV.items() if v[1] == "either"]

UPD_PV = {
    "none": ([], "valid"),
    "lt60": (["lt=60"], "valid"),
    "lt300": (["lt=300"], "valid"),
    "lt600+extra": (["lt=600", "foo=new"], "valid"),
    "base": (["base=coap://[2001:db8::9]:1234"], "valid"),
    "extra": (["foo=new"], "valid"),
    "extra2": (["bar=b", "foo=a"], "valid"),
    "lt+base+extra": (["lt=120", "base=coap://upd.example/", "zed=1"], "valid"),
    "ep-same": (["ep={ep}"], "invalid"),
    "ep-other": (["ep=zzz"], "invalid"),
    "d": (["d=y"], "invalid"),
    "lt-alpha": (["lt=abc"], "invalid"),
    "lt-repeated": (["lt=1", "lt=2"], "invalid"),
    "base-repeated": (["base=coap://a.example", "base=coap://b.example"], "invalid"),
    "reserved-rt": (["rt=x"], "invalid"),
    "reserved-count": (["count=3"], "invalid"),
    "lt-ok+base-repeated": (["lt=60", "base=coap://a.example", "base=coap://b.example"], "invalid"),
    "extra+lt-alpha": (["foo=q", "lt=abc"], "invalid"),
    "lt-ok+ep": (["lt=70", "ep=x"], "invalid"),
    "lt-novalue": (["lt"], "5xx"),
    # (the lifetimes of the variants below occur in no other variant, so that a lifetime seen at work names its request)
    # an update that names the base the directory lists for the registration ({base}); entirely valid (RFC 9176 5.3.1)
    "base-as-listed": (["base={base}"], "valid"),
    "lt3+base-as-listed": (["lt=3", "base={base}"], "valid"),
    "lt240+base-as-listed": (["lt=240", "base={base}"], "valid"),
    "lt45+base-as-listed+extra": (["base={base}", "lt=45", "foo=pinned"], "valid"),
}
UPD_PV.update({k: v for k, v in ODD_PV.items()})
UPD_PV["lt180+base-novalue"] = (["lt=180", "base"], "odd")
UPD_ODD = [k for k, v in UPD_PV.items() if v[1] == "odd"]
UPD_AS_LISTED = [k for k in UPD_PV if "base-as-listed" in k]
UPD_FOLLOW = [k for k in UPD_PV if k.startswith("lt") and ("base-as-listed" in k or "base-novalue" in k)]
UPD_VALID = [k for k, v in UPD_PV.items() if v[1] == "valid"]
UPD_INVALID = [k for k, v in UPD_PV.items() if v[1] == "invalid"]

MALFORMED = [b"\xff\xfe</a>", b"garbage", b'</a>;rt="x']
NLINKSETS = 7

# Simple registration (RFC 9176 5.1): the registrant POSTs ep / d / lt / extra attributes (no body, no base) to
# /.well-known/rd, the directory fetches the registrant's /.well-known/core and registers what it got under the
# registrant's address. A parameter variant carrying `base` is invalid here.
SREG_VALID = [k for k, v in REG_PV.items() if v[1] == "valid" and not any(q.startswith("base=") for q in v[0])]
SREG_SHORT = ["lt60", "lt60", "lt120", "lt1", "lt60+extra", "plain", "extra"]
SREG_INVALID = [k for k, v in REG_PV.items() if v[1] == "invalid" or (v[1] == "valid" and any(q.startswith("base=") for q in v[0]))]
# how the registrant answers the directory's GET /.well-known/core; see Runner.reaction_of
#   delivery modes (of an answer): piggy (in the ACK), separate (empty ACK, CON response `delay` later), late (first
#   transmission ignored, the retransmission answered), block16 / block32 (Block2 transfer in 16 / 32 byte blocks)
REACT_MODES = ["piggy", "piggy", "piggy", "piggy", "separate", "late", "block16", "block32"]
ERROR_CODES = ["4.04", "4.01", "4.05", "5.00", "5.03"]


SREG_WAIT = 100.0  # s the registrant waits for the answer to a simple registration (see ASSUMPTIONS)


def sreg_class(pv):
    opts, cls = REG_PV[pv]
    return "invalid" if any(q.startswith("base=") for q in opts) and cls == "valid" else cls


def linkset(i, tag):
    t = tag
    return [
        '</%s/temp>;rt="temperature-c";if="sensor",</%s/light>;rt="light-lux";if="sensor";ct=41' % (t, t),
        "</%s/a>" % t,
        '<%s/rel>;rt="r1 r2",<../up/%s>;anchor="sub/x";rel="hosts"' % (t, t),
        '<coap://other.example/%s/abs>;rt="ext";anchor="coap://third.example/ctx",</%s/obs>;obs;title="a,b;c d"' % (t, t),
        "",
        '</%s/dup>;rt="x",</%s/dup>;rt="x"' % (t, t),
        '</%s/s>;if="core.s";sz=1200,</%s/temp>;rt="temperature-c",<//alt.example/%s>;rt="net-path"' % (t, t, t),
    ][i].encode()


# Link sets whose attribute values need link-format's quoting and escaping (RFC 6690 2: quoted-string with quoted-pair),
# attributes without a value, and link targets / anchors that are no URI reference any base can resolve. Written out as
# structure so that what is MEANT does not depend on any parser: (target, ((attribute, value | None), ...)).
# `how`: "quoted" = serialised per RFC 6690 ('\\' and '"' escaped in quoted-strings); "token" = the value follows the '='
# bare although it contains characters outside ptoken -- not RFC 6690, a directory may refuse it (4.00) or read it the
# only way it can be read (up to the next ';' or ','), which is what is meant.
#        "lenient-target" = a target with a character that delimits a URI ('<', '"', blank, control; '>' cannot be written at
#        all) -- not RFC 6690 either, refused or taken as written.
# Sets 13-15 are plain RFC 6690: relative references whose resolution (RFC 3986 5.2) meets empty path segments and queries.
# Sets 16-19: attributes without a value or with an empty one, `anchor` among them (RFC 6690 leaves link-extension values optional;
# parameter names are case-insensitive, RFC 8288 3). Sets 20-22: targets whose path begins with "//" once dot segments are removed
# although there is no authority (see c20_ref.resolve).
NODDLINKS = 23


def oddlinkset(i, tag):
    """-> (payload, meant links, how)"""
    t = tag
    sets = [
        ([("/%s/bs" % t, (("title", "x\\"),))], "quoted"),
        ([("/%s/bs" % t, (("foo", "x\\"),)), ("/%s/n" % t, (("rt", "plain"),))], "token"),
        ([("/%s/q" % t, (("title", 'say "hi"'), ("rt", "a b")))], "quoted"),
        ([("/%s/m" % t, (("title", "a\\b\\\\c"), ("if", "sensor")))], "quoted"),
        ([("/%s/p" % t, (("title", "plain"), ("rt", "temperature-c")))], "quoted-pair-everywhere"),
        ([("/%s/u" % t, (("title", "gr\u00fc\u00df, gott; <x>=\\\"y\\\""),))], "quoted"),
        ([("/%s/v" % t, (("obs", None), ("foo", None), ("bar", ""), ("if", None), ("rt", None))), ("/%s/w" % t, (("rt", "light-lux"), ("title", None)))], "quoted"),
        ([("/%s/ok" % t, (("rt", "ext"),)), ("http://[", ())], "quoted"),
        ([("//[::1/%s" % t, (("rt", "x"),))], "quoted"),
        ([("/%s/anch" % t, (("anchor", "coap://[zz]/"), ("rel", "hosts")))], "quoted"),
        ([("/%s/ok" % t, (("rt", "ext"),)), ("%s/a<b" % t, (("rt", "x"),))], "lenient-target"),
        ([("/%s/sp ace" % t, (("rt", "x"),))], "lenient-target"),
        ([("%s/q\"uote" % t, ()), ("/%s/t\tab" % t, (("rt", "x"),))], "lenient-target"),
        ([("%s/a//b" % t, (("rt", "x"),)), ("/%s/abs//kept" % t, ())], "quoted"),
        ([("%s//" % t, ()), ("./%s/c//d/../e" % t, (("anchor", "s//%s" % t), ("rel", "hosts"))), ("?y=%s" % t, ())], "quoted"),
        ([("%s/status" % t, (("rt", "temperature-c"),)), ("", (("rt", "self"),)), ("?", ()), ("../%s/up" % t, (("anchor", "a>b"),))], "quoted"),
        ([("/%s/ok" % t, (("rt", "temperature-c"),)), ("/%s/va" % t, (("anchor", None),))], "quoted"),
        ([("/%s/vA" % t, (("rt", "x"), ("Anchor", None), ("rel", "hosts")))], "quoted"),
        ([("/%s/ea" % t, (("anchor", ""), ("rel", "hosts"))), ("%s/eb" % t, (("rel", ""), ("anchor", "")))], "quoted"),
        ([("/%s/vl" % t, (("ct", None), ("sz", None), ("rel", None), ("hreflang", None), ("title", ""), ("rt", ""), ("if", ""))), ("/%s/vm" % t, (("rt", "light-lux"), ("ct", ""), ("sz", ""), ("hreflang", ""), ("title*", None)))], "quoted"),
        ([("/%s/ok" % t, (("rt", "ext"),)), ("foo:/a/..//%s/x" % t, (("rt", "x"),))], "quoted"),
        ([("foo:/.//[%s" % t, ())], "quoted"),
        ([("../..//%s/y" % t, (("rt", "x"),)), ("/%s/z" % t, (("anchor", "bar:/.//%s/./w" % t), ("rel", "hosts")))], "quoted"),
    ]
    meant, how = sets[i]
    out = []
    for href, params in meant:
        parts = ["<%s>" % href]
        for k, v in params:
            if v is None:
                parts.append(k)
            elif how == "token":
                parts.append("%s=%s" % (k, v))
            elif how == "quoted-pair-everywhere":
                parts.append('%s="%s"' % (k, "".join("\\" + c for c in v)))
            else:
                parts.append('%s="%s"' % (k, v.replace("\\", "\\\\").replace('"', '\\"')))
        out.append(";".join(parts))
    return ",".join(out).encode("utf8"), meant, how


def oddlinks_selftest(reflink):
    """What is written for an odd link set means, read by the independent RFC 6690 parser, exactly the structure it was
    written from (the "token" style, which is not RFC 6690, is refused by that parser)."""
    for i in range(NODDLINKS):
        payload, meant, how = oddlinkset(i, "t")
        want = [reflink.Link(h, tuple(ps)) for h, ps in meant]
        if how == "token":
            try:
                reflink.parse(payload)
            except reflink.Malformed:
                continue
            raise AssertionError("odd link set %d: the token style was meant not to be RFC 6690" % i)
        if how == "lenient-target":
            # (the independent parser only insists that no '<' is inside a target; where it reads the payload, then as meant)
            try:
                assert reflink.parse(payload) == want, (i, payload)
            except reflink.Malformed:
                pass
            continue
        got = reflink.parse(payload)
        assert got == want, (i, payload, got, want)
    return True


def plan(tier, seed):
    n = 16
    per = {"quick": 220, "thorough": 10000}[tier]
    return [{"name": "c20-%d" % i, "seed": seed * 1000 + i, "index": i, "of": n, "n": per, "tier": tier} for i in range(n)]


# ---------------------------------------------------------------------------------------------- generation


def gen_body(r, ver, odd=False):
    if odd and r.random() < 0.6:
        return ["odd", r.randrange(NODDLINKS), ver]
    x = r.random()
    if x < 0.80:
        return ["links", r.randrange(NLINKSETS), ver]
    if x < 0.87:
        return ["malformed", r.randrange(len(MALFORMED))]
    if x < 0.93:
        return ["cf-text", r.randrange(NLINKSETS), ver]
    if x < 0.97:
        return ["cf-missing", r.randrange(NLINKSETS), ver]
    return ["nobody-nocf"]


def gen_react(r, ver, odd=False):
    """-> (reaction of the registrant to the directory's fetch, delivery mode, delay of a separate response)"""
    x = r.random()
    if odd and r.random() < 0.5:
        react = ["odd", r.randrange(NODDLINKS), ver]
    elif x < 0.50:
        react = ["links", r.randrange(NLINKSETS), ver]
    elif x < 0.56:
        react = ["empty"]
    elif x < 0.64:
        react = ["error", r.choice(ERROR_CODES)]
    elif x < 0.68:
        react = ["error-with-links", r.choice(ERROR_CODES), r.randrange(NLINKSETS), ver]
    elif x < 0.74:
        react = ["cf-text", r.randrange(NLINKSETS), ver]
    elif x < 0.79:
        react = ["cf-missing", r.randrange(NLINKSETS), ver]
    elif x < 0.87:
        react = ["malformed", r.randrange(len(MALFORMED))]
    elif x < 0.94:
        react = ["silence"]
    elif x < 0.97:
        react = ["rst"]
    else:
        react = ["not-found-there"]  # the registrant has no /.well-known/core: 4.04 to whatever is asked
    return react, r.choice(REACT_MODES), r.choice([0.5, 3.0, 20.0])


def gen_target(r, neps, nsect):
    x = r.random()
    if x < 0.75:
        return ["key", r.randrange(neps), r.randrange(nsect)]
    if x < 0.90:
        return ["stale", r.randrange(2)]
    return ["never"]


def gen(r):
    n = r.choice([5, 8, 12, 16, 24, 32, 40])
    neps, nsect, npeers = r.choice([1, 2, 2, 3, 4]), r.choice([1, 2]), r.choice([1, 2, 3])
    short = r.random() < 0.75
    # about half of the histories also carry "odd" content (see ODD_PV, oddlinkset, ODD_EPS): there about a third of the
    # writes have an odd parameter variant, a third of the bodies an odd link set, and one endpoint name may be odd
    odd = r.random() < 0.5
    eps = list(EPS)
    if odd and r.random() < 0.4:
        eps[r.randrange(neps)] = r.choice(ODD_EPS)
    steps = []
    for i in range(n):
        x = r.random()
        oddpv = odd and r.random() < 0.36
        if (i == 0 or x < 0.30) and r.random() < 0.32:
            y = r.random()
            if oddpv:
                pv = r.choice(REG_ODD)
            elif y < 0.70:
                pv = r.choice(SREG_SHORT) if short and r.random() < 0.7 else r.choice(SREG_VALID)
            elif y < 0.93:
                pv = r.choice(SREG_INVALID)
            elif y < 0.98:
                pv = r.choice(REG_EITHER)
            else:
                pv = r.choice(["lt-novalue", "proxy"])
            shape = "ok" if r.random() < 0.9 else r.choice(["ep-missing", "ep-repeated", "d-repeated", "ep-novalue"])
            react, mode, delay = gen_react(r, i, odd)
            steps.append({"op": "sreg", "peer": r.randrange(npeers), "ep": r.randrange(neps), "d": r.randrange(nsect), "shape": shape, "pv": pv, "via": "rd" if r.random() < 0.85 else "wkc", "react": react, "mode": mode, "delay": delay})
        elif i == 0 or x < 0.30:
            y = r.random()
            if oddpv:
                pv = r.choice(REG_ODD)
            elif y < 0.62:
                pv = r.choice(REG_SHORT) if short and r.random() < 0.7 else r.choice(REG_VALID)
            elif y < 0.90:
                pv = r.choice(REG_INVALID)
            elif y < 0.97:
                pv = r.choice(REG_EITHER)
            else:
                pv = "lt-novalue"
            shape = "ok" if r.random() < 0.88 else r.choice(["ep-missing", "ep-repeated", "d-repeated", "ep-novalue"])
            body = gen_body(r, i, odd)
            if body[0] == "odd" and (13 <= body[1] <= 15 or body[1] == 22) and r.random() < 0.5:
                pv = r.choice(RESOLUTION_PV)  # relative references meet a base with a path worth resolving against
            elif (pv in RESOLUTION_PV[:6] or pv in DELIMITER_PV) and r.random() < 0.5:
                # (a base's path only shows in the targets of relative references)
                body = r.choice([["odd", r.choice([13, 14, 15, 22]), i], ["links", 2, i]])
            steps.append({"op": "reg", "peer": r.randrange(npeers), "ep": r.randrange(neps), "d": r.randrange(nsect), "shape": shape, "pv": pv, "body": body})
        elif x < 0.52:
            y = r.random()
            pv = r.choice(UPD_VALID) if y < 0.55 else r.choice(UPD_INVALID) if y < 0.96 else "lt-novalue"
            if oddpv:
                pv = r.choice(UPD_ODD)
            elif r.random() < 0.12:
                pv = r.choice(UPD_AS_LISTED)
            body = "none" if r.random() < 0.68 else r.choice(["body+cf", "body+cf", "body-nocf", "cf-nobody"])
            steps.append({"op": "post", "peer": r.randrange(npeers), "tgt": gen_target(r, neps, nsect), "pv": pv, "body": body})
            if pv in UPD_FOLLOW and r.random() < 0.5:
                # lt is invisible: what such an update did to the lifetime shows after the next update that keeps "the previous lt"
                steps.append({"op": "post", "peer": steps[-1]["peer"], "tgt": steps[-1]["tgt"], "pv": r.choice(["none", "none", "extra"]), "body": "none"})
                steps.append({"op": "idle", "how": r.choice([["dt", 30.0], ["dt", 58.0], ["boundary", "latest-write", 0, "g+1"]])})
        elif x < 0.60:
            y = r.random()
            pv = r.choice(UPD_VALID) if y < 0.6 else r.choice(UPD_INVALID)
            if oddpv:
                pv = r.choice(UPD_ODD)
            body = gen_body(r, i, odd)
            if body[0] == "odd" and (13 <= body[1] <= 15 or body[1] == 22) and r.random() < 0.4:
                pv = r.choice(RESOLUTION_PV[:6])
            steps.append({"op": "put", "peer": r.randrange(npeers), "tgt": gen_target(r, neps, nsect), "pv": pv, "body": body})
        elif x < 0.68:
            steps.append({"op": "del", "peer": r.randrange(npeers), "tgt": gen_target(r, neps, nsect)})
        elif x < (0.80 if odd else 0.88):
            if r.random() < 0.3:
                steps.append({"op": "idle", "how": ["dt", r.choice([1.0, 10.0, 30.0, 58.0])]})
            else:
                steps.append({"op": "idle", "how": ["boundary", r.choice(["soonest", "soonest", "latest-write", "random"]), r.randrange(8), r.choice(["lt-1", "lt+1", "g-1", "g+1", "g+1"])]})
        else:
            kind = r.choice(["ep", "res"])
            if r.random() < 0.25:
                q = ["page", r.choice([1, 2, 3])]
            else:
                q = ["crit", r.choice(CRITERIA_ODD if odd and r.random() < 0.65 else CRITERIA), r.randrange(16)]
                if r.random() < 0.35:
                    # a second search criterion on another key: both must hold (RFC 9176 section 6.1)
                    first_key = q[1].split("-")[0]
                    others = [c for c in CRITERIA + (CRITERIA_ODD if odd else []) if c.split("-")[0] != first_key and not (first_key in ("rt", "if", "extra", "href") and c.split("-")[0] == first_key)]
                    q += [r.choice(others), r.randrange(16)]
            steps.append({"op": "lookup", "kind": kind, "q": q, "peer": r.randrange(npeers), "szx": r.choice([None, None, 6, 4, 2])})
    return {"steps": steps, "sweep_szx": r.choice([None, None, None, 6, 4]), "npeers": npeers, "eps": eps}


CRITERIA = ["ep-exact", "ep-prefix", "ep-none", "d", "rt-exact", "rt-second", "rt-prefix", "if", "extra", "extra-prefix", "href-target", "href-loc", "href-prefix"]
# search criteria on what the odd content put there: a parameter / attribute that some registration has without a value
# (RFC 6690 4.1: it has no value, so it matches no `name=value`), and the odd values themselves
CRITERIA_ODD = ["novalue-prefix", "novalue-exact", "novalue-if", "oddvalue-param", "oddvalue-param-prefix", "oddvalue-link", "oddvalue-link-prefix", "title"]
# endpoint names that need link-format's quoting / escaping when listed
ODD_EPS = ["back\\slash", "trail\\", 'q"uo,te;', "\u00fcn\u00ef<c>"]

# fixed scripts: acceptance pins and one deterministic witness per understood deviation of the unchanged tree
_L = lambda i, v=0: ["links", i, v]  # noqa: E731


def _S(peer, ep, d, pv, react, mode="piggy", delay=0.5, shape="ok", via="rd", **kw):
    st = {"op": "sreg", "peer": peer, "ep": ep, "d": d, "shape": shape, "pv": pv, "via": via, "react": react, "mode": mode, "delay": delay}
    st.update(kw)
    return st


FIXED = {
    "pins": [
        {"op": "reg", "peer": 0, "ep": 0, "d": 0, "shape": "ok", "pv": "plain", "body": _L(0), "must": "accept", "pin": "register-ep"},
        {"op": "reg", "peer": 0, "ep": 0, "d": 1, "shape": "ok", "pv": "plain", "body": _L(1), "must": "accept", "pin": "register-ep-d"},
        {"op": "reg", "peer": 1, "ep": 1, "d": 0, "shape": "ok", "pv": "lt60", "body": _L(2), "must": "accept", "pin": "register-lt60"},
        {"op": "reg", "peer": 2, "ep": 2, "d": 0, "shape": "ok", "pv": "base-v6", "body": _L(2), "must": "accept", "pin": "register-base"},
        {"op": "post", "peer": 0, "tgt": ["key", 0, 0], "pv": "none", "body": "none", "must": "accept", "pin": "update-post-empty"},
        {"op": "post", "peer": 1, "tgt": ["key", 1, 0], "pv": "lt300", "body": "none", "must": "accept", "pin": "update-post-lt"},
        {"op": "put", "peer": 0, "tgt": ["key", 0, 0], "pv": "none", "body": _L(1, 1), "must": "accept-or-405", "pin": "update-put"},
        {"op": "reg", "peer": 0, "ep": 3, "d": 0, "shape": "ep-missing", "pv": "plain", "body": _L(1), "must": "reject", "pin": "register-without-ep"},
        {"op": "reg", "peer": 0, "ep": 3, "d": 0, "shape": "ok", "pv": "lt-alpha", "body": _L(1), "must": "reject", "pin": "register-lt-nonnumeric"},
        {"op": "reg", "peer": 0, "ep": 3, "d": 0, "shape": "ok", "pv": "lt-repeated", "body": _L(1), "must": "reject", "pin": "register-lt-repeated"},
        {"op": "post", "peer": 1, "tgt": ["key", 1, 0], "pv": "ep-other", "body": "none", "must": "reject", "pin": "update-with-ep"},
        {"op": "post", "peer": 1, "tgt": ["key", 1, 0], "pv": "d", "body": "none", "must": "reject", "pin": "update-with-d"},
        {"op": "post", "peer": 1, "tgt": ["key", 1, 0], "pv": "lt-alpha", "body": "none", "must": "reject", "pin": "update-lt-nonnumeric"},
        {"op": "del", "peer": 1, "tgt": ["key", 1, 0], "must": "accept", "pin": "delete"},
        {"op": "post", "peer": 1, "tgt": ["key", 1, 0], "pv": "none", "body": "none", "must": "reject", "pin": "update-removed-location"},
        {"op": "del", "peer": 1, "tgt": ["key", 1, 0], "must": "reject", "pin": "delete-removed-location"},
        {"op": "lookup", "kind": "ep", "q": ["page", 1], "peer": 0, "szx": None},
        {"op": "lookup", "kind": "res", "q": ["page", 2], "peer": 0, "szx": 4},
        {"op": "lookup", "kind": "res", "q": ["crit", "rt-exact", 0], "peer": 0, "szx": None},
        {"op": "lookup", "kind": "ep", "q": ["crit", "d", 0], "peer": 0, "szx": None},
        {"op": "idle", "how": ["boundary", "soonest", 0, "g-1"]},
        {"op": "idle", "how": ["boundary", "soonest", 0, "g+1"]},
    ],
    # simple registration (RFC 9176 5.1): every reaction of the registrant once, re-registration simple-over-simple,
    # regular-over-simple and simple-over-regular, update / removal through the registration resource, expiry
    "simple": [
        _S(0, 0, 0, "plain", ["links", 0, 0], must="accept", pin="simple-register"),
        _S(1, 1, 1, "lt60+extra", ["links", 2, 0], mode="separate", must="accept", pin="simple-register-ep-d-lt"),
        _S(2, 2, 0, "lt120", ["links", 3, 0], mode="block16", must="accept", pin="simple-register-blockwise-fetch"),
        _S(0, 3, 0, "lt60", ["empty"], must="accept", pin="simple-register-no-links"),
        _S(2, 2, 1, "base-v6", ["links", 1, 0], must="reject", pin="simple-register-with-base"),
        _S(0, 2, 1, "plain", ["links", 1, 0], shape="ep-missing", must="reject", pin="simple-register-without-ep"),
        _S(0, 2, 1, "lt-alpha", ["links", 1, 0], must="reject", pin="simple-register-lt-nonnumeric"),
        _S(0, 2, 1, "plain", ["error", "4.04"], must="refuse", pin="simple-register-fetch-answered-4.04"),
        _S(1, 2, 1, "plain", ["error-with-links", "5.00", 1, 0], must="refuse", pin="simple-register-fetch-answered-5.00"),
        _S(0, 2, 1, "plain", ["malformed", 1], must="refuse", pin="simple-register-fetch-unparsable"),
        _S(0, 2, 1, "plain", ["cf-text", 1, 0], must="refuse", pin="simple-register-fetch-wrong-content-format"),
        _S(0, 2, 1, "plain", ["rst"], must="refuse", pin="simple-register-fetch-reset"),
        _S(1, 0, 0, "lt60", ["links", 1, 1], mode="late", must="accept", pin="simple-reregister"),
        _S(1, 0, 0, "lt120", ["error", "4.04"], must="refuse", pin="simple-reregister-fetch-answered-4.04"),
        {"op": "reg", "peer": 0, "ep": 1, "d": 1, "shape": "ok", "pv": "lt60+base", "body": _L(0, 1), "must": "accept", "pin": "register-over-simple"},
        _S(2, 1, 1, "lt120", ["links", 6, 2], via="wkc"),
        {"op": "post", "peer": 2, "tgt": ["key", 2, 0], "pv": "lt600+extra", "body": "none", "must": "accept", "pin": "update-simple-registration"},
        {"op": "put", "peer": 0, "tgt": ["key", 3, 0], "pv": "none", "body": _L(1, 1), "must": "accept-or-405", "pin": "update-put-simple-registration"},
        {"op": "lookup", "kind": "res", "q": ["crit", "href-prefix", 0], "peer": 0, "szx": None},
        {"op": "del", "peer": 1, "tgt": ["key", 1, 1], "must": "accept", "pin": "delete-simple-registration"},
        _S(0, 2, 1, "lt60", ["silence"], must="refuse-or-silent", pin="simple-register-fetch-unanswered"),
        _S(0, 2, 0, "lt60", ["silence"], must="refuse-or-silent", pin="simple-reregister-fetch-unanswered"),
        {"op": "idle", "how": ["boundary", "soonest", 0, "g-1"]},
        {"op": "idle", "how": ["boundary", "soonest", 0, "g+1"]},
        _S(0, 0, 0, "lt1", ["links", 0, 2], mode="separate", delay=20.0),
        {"op": "idle", "how": ["boundary", "soonest", 0, "g+1"]},
    ],
    "w-update-body-params": [
        {"op": "reg", "peer": 0, "ep": 0, "d": 0, "shape": "ok", "pv": "lt60+extra", "body": _L(0)},
        {"op": "idle", "how": ["dt", 50.0]},
        {"op": "post", "peer": 0, "tgt": ["key", 0, 0], "pv": "lt600+extra", "body": "body+cf"},
    ],
    "w-update-body-lifetime": [
        {"op": "reg", "peer": 0, "ep": 0, "d": 0, "shape": "ok", "pv": "lt60", "body": _L(0)},
        {"op": "idle", "how": ["dt", 50.0]},
        {"op": "post", "peer": 0, "tgt": ["key", 0, 0], "pv": "none", "body": "body+cf"},
        {"op": "idle", "how": ["boundary", "soonest", 0, "g+1"]},
    ],
    "w-update-cf-nobody-lifetime": [
        {"op": "reg", "peer": 0, "ep": 0, "d": 0, "shape": "ok", "pv": "lt60", "body": _L(0)},
        {"op": "idle", "how": ["dt", 50.0]},
        {"op": "post", "peer": 0, "tgt": ["key", 0, 0], "pv": "lt300", "body": "cf-nobody"},
        {"op": "idle", "how": ["boundary", "soonest", 0, "g+1"]},
    ],
    "w-reregister-lt-alpha": [
        {"op": "reg", "peer": 0, "ep": 0, "d": 0, "shape": "ok", "pv": "plain", "body": _L(0)},
        {"op": "reg", "peer": 0, "ep": 0, "d": 0, "shape": "ok", "pv": "lt-alpha", "body": _L(1, 1)},
    ],
    "w-reregister-reserved": [
        {"op": "reg", "peer": 0, "ep": 0, "d": 1, "shape": "ok", "pv": "lt120", "body": _L(0)},
        {"op": "reg", "peer": 1, "ep": 0, "d": 1, "shape": "ok", "pv": "reserved-rt", "body": _L(1, 1)},
    ],
    "w-reregister-lt-repeated": [
        {"op": "reg", "peer": 0, "ep": 0, "d": 0, "shape": "ok", "pv": "plain", "body": _L(0)},
        {"op": "reg", "peer": 0, "ep": 0, "d": 0, "shape": "ok", "pv": "lt-repeated", "body": _L(1, 1)},
    ],
    "w-reregister-base-repeated": [
        {"op": "reg", "peer": 0, "ep": 0, "d": 0, "shape": "ok", "pv": "plain", "body": _L(0)},
        {"op": "reg", "peer": 0, "ep": 0, "d": 0, "shape": "ok", "pv": "base-repeated", "body": _L(1, 1)},
    ],
    "w-base-unknown-scheme": [
        {"op": "reg", "peer": 0, "ep": 0, "d": 0, "shape": "ok", "pv": "base-unknown-scheme", "body": _L(2)},
    ],
    # odd content (ODD_PV, oddlinkset): one deterministic history per mechanism
    "w-odd-parameter-name": [
        {"op": "reg", "peer": 0, "ep": 0, "d": 0, "shape": "ok", "pv": "plain", "body": _L(0)},
        {"op": "reg", "peer": 1, "ep": 1, "d": 0, "shape": "ok", "pv": "name-foreign-link", "body": _L(1)},
    ],
    "w-odd-parameter-name-unparsable": [
        {"op": "reg", "peer": 0, "ep": 0, "d": 0, "shape": "ok", "pv": "plain", "body": _L(0)},
        {"op": "post", "peer": 0, "tgt": ["key", 0, 0], "pv": "name-empty", "body": "none"},
    ],
    "w-odd-parameter-value": [
        {"op": "reg", "peer": 0, "ep": 0, "d": 0, "shape": "ok", "pv": "plain", "body": _L(0)},
        {"op": "reg", "peer": 1, "ep": 1, "d": 0, "shape": "ok", "pv": "value-backslash-end", "body": _L(1)},
    ],
    "w-odd-parameter-value-mid": [
        {"op": "reg", "peer": 1, "ep": 1, "d": 0, "shape": "ok", "pv": "value-backslash-mid", "body": _L(1)},
    ],
    "w-odd-link-attribute-value": [
        {"op": "reg", "peer": 0, "ep": 0, "d": 0, "shape": "ok", "pv": "plain", "body": _L(0)},
        {"op": "reg", "peer": 1, "ep": 1, "d": 0, "shape": "ok", "pv": "plain", "body": ["odd", 1, 0]},
    ],
    "w-odd-link-attribute-value-filter": [
        {"op": "reg", "peer": 0, "ep": 0, "d": 0, "shape": "ok", "pv": "plain", "body": ["odd", 0, 0]},
        {"op": "lookup", "kind": "res", "q": ["crit", "oddvalue-link", 0], "peer": 0, "szx": None},
        {"op": "reg", "peer": 0, "ep": 1, "d": 0, "shape": "ok", "pv": "plain", "body": ["odd", 4, 0]},
        {"op": "lookup", "kind": "ep", "q": ["crit", "title", 0], "peer": 0, "szx": None},
    ],
    "w-odd-base": [
        {"op": "reg", "peer": 0, "ep": 0, "d": 0, "shape": "ok", "pv": "plain", "body": _L(0)},
        {"op": "reg", "peer": 1, "ep": 1, "d": 0, "shape": "ok", "pv": "base-bracket-open", "body": _L(1)},
    ],
    "w-odd-base-update": [
        {"op": "reg", "peer": 0, "ep": 0, "d": 0, "shape": "ok", "pv": "plain", "body": _L(0)},
        {"op": "post", "peer": 0, "tgt": ["key", 0, 0], "pv": "base-v6-unclosed+lt60", "body": "none"},
    ],
    "w-odd-link-target": [
        {"op": "reg", "peer": 0, "ep": 0, "d": 0, "shape": "ok", "pv": "plain", "body": _L(0)},
        {"op": "reg", "peer": 1, "ep": 1, "d": 0, "shape": "ok", "pv": "plain", "body": ["odd", 7, 0]},
    ],
    "w-odd-link-anchor-simple": [
        {"op": "reg", "peer": 0, "ep": 0, "d": 0, "shape": "ok", "pv": "plain", "body": _L(0)},
        _S(1, 1, 0, "lt60", ["odd", 9, 0]),
    ],
    "w-odd-parameter-without-value": [
        {"op": "reg", "peer": 0, "ep": 0, "d": 0, "shape": "ok", "pv": "lt60", "body": _L(0)},
        {"op": "reg", "peer": 1, "ep": 1, "d": 0, "shape": "ok", "pv": "if-novalue", "body": _L(1)},
        {"op": "lookup", "kind": "ep", "q": ["crit", "if", 0], "peer": 0, "szx": None},
        {"op": "lookup", "kind": "res", "q": ["crit", "if", 1], "peer": 0, "szx": None},
    ],
    "w-odd-link-attribute-without-value": [
        {"op": "reg", "peer": 0, "ep": 0, "d": 0, "shape": "ok", "pv": "plain", "body": _L(3)},
        {"op": "lookup", "kind": "res", "q": ["crit", "novalue-prefix", 0], "peer": 0, "szx": None},
        {"op": "lookup", "kind": "ep", "q": ["crit", "novalue-prefix", 4], "peer": 0, "szx": None},
    ],
    "w-odd-update-naming-listed-base": [
        {"op": "reg", "peer": 0, "ep": 0, "d": 0, "shape": "ok", "pv": "lt60", "body": _L(0)},
        {"op": "idle", "how": ["dt", 10.0]},
        {"op": "post", "peer": 0, "tgt": ["key", 0, 0], "pv": "lt3+base-as-listed", "body": "none"},
        {"op": "post", "peer": 0, "tgt": ["key", 0, 0], "pv": "none", "body": "none"},
        {"op": "idle", "how": ["dt", 30.0]},
    ],
    "w-odd-update-naming-listed-base-location-reused": [
        {"op": "reg", "peer": 0, "ep": 0, "d": 0, "shape": "ok", "pv": "lt60", "body": _L(0)},
        {"op": "post", "peer": 0, "tgt": ["key", 0, 0], "pv": "lt3+base-as-listed", "body": "none"},
        {"op": "post", "peer": 0, "tgt": ["key", 0, 0], "pv": "none", "body": "none"},
        _S(1, 1, 0, "lt120", ["links", 1, 0], mode="separate", delay=20.0),
    ],
    "w-target-base-foreign-link": [
        {"op": "reg", "peer": 0, "ep": 0, "d": 0, "shape": "ok", "pv": "plain", "body": _L(0)},
        {"op": "reg", "peer": 1, "ep": 1, "d": 0, "shape": "ok", "pv": "base-foreign-link", "body": _L(2)},
    ],
    "w-target-base-update": [
        {"op": "reg", "peer": 0, "ep": 0, "d": 0, "shape": "ok", "pv": "plain", "body": _L(0)},
        {"op": "reg", "peer": 1, "ep": 1, "d": 0, "shape": "ok", "pv": "lt60", "body": _L(2)},
        {"op": "post", "peer": 1, "tgt": ["key", 1, 0], "pv": "base-gt", "body": "none"},
    ],
    "w-target-base-space": [
        {"op": "reg", "peer": 1, "ep": 1, "d": 0, "shape": "ok", "pv": "base-space", "body": ["odd", 15, 0]},
    ],
    "w-target-link": [
        {"op": "reg", "peer": 0, "ep": 0, "d": 0, "shape": "ok", "pv": "plain", "body": _L(0)},
        {"op": "reg", "peer": 1, "ep": 1, "d": 0, "shape": "ok", "pv": "plain", "body": ["odd", 10, 0]},
    ],
    "w-target-link-simple": [
        {"op": "reg", "peer": 0, "ep": 0, "d": 0, "shape": "ok", "pv": "plain", "body": _L(0)},
        _S(1, 1, 0, "lt60", ["odd", 11, 0]),
    ],
    "w-resolution-empty-segment-in-base": [
        {"op": "reg", "peer": 0, "ep": 0, "d": 0, "shape": "ok", "pv": "base-empty-segment", "body": _L(2)},
    ],
    "w-resolution-empty-segment-in-reference": [
        {"op": "reg", "peer": 0, "ep": 0, "d": 0, "shape": "ok", "pv": "base-tcp", "body": ["odd", 13, 0]},
    ],
    "w-resolution-empty-query": [
        {"op": "reg", "peer": 0, "ep": 0, "d": 0, "shape": "ok", "pv": "base-query", "body": ["odd", 15, 0]},
    ],
    "w-resolution-empty-query-default-base-put": [
        {"op": "reg", "peer": 0, "ep": 0, "d": 0, "shape": "ok", "pv": "lt60", "body": _L(0)},
        {"op": "put", "peer": 0, "tgt": ["key", 0, 0], "pv": "none", "body": ["odd", 15, 1]},
    ],
    "w-anchor-without-value": [
        {"op": "reg", "peer": 0, "ep": 0, "d": 0, "shape": "ok", "pv": "plain", "body": _L(0)},
        {"op": "reg", "peer": 1, "ep": 1, "d": 0, "shape": "ok", "pv": "lt60", "body": ["odd", 16, 0]},
    ],
    "w-anchor-without-value-put": [
        {"op": "reg", "peer": 0, "ep": 0, "d": 0, "shape": "ok", "pv": "plain", "body": _L(0)},
        {"op": "put", "peer": 0, "tgt": ["key", 0, 0], "pv": "none", "body": ["odd", 17, 1]},
    ],
    "w-anchor-without-value-simple": [
        {"op": "reg", "peer": 0, "ep": 0, "d": 0, "shape": "ok", "pv": "plain", "body": _L(0)},
        _S(1, 1, 0, "lt60", ["odd", 16, 0]),
    ],
    "w-attributes-empty-or-without-value": [
        {"op": "reg", "peer": 0, "ep": 0, "d": 0, "shape": "ok", "pv": "plain", "body": ["odd", 18, 0]},
        {"op": "reg", "peer": 1, "ep": 1, "d": 0, "shape": "ok", "pv": "base-path", "body": ["odd", 19, 0]},
        {"op": "lookup", "kind": "res", "q": ["crit", "rt-exact", 1], "peer": 0, "szx": None},
        {"op": "lookup", "kind": "ep", "q": ["crit", "if", 0], "peer": 0, "szx": None},
    ],
    "w-path-as-authority": [
        {"op": "reg", "peer": 0, "ep": 0, "d": 0, "shape": "ok", "pv": "plain", "body": _L(0)},
        {"op": "reg", "peer": 1, "ep": 1, "d": 0, "shape": "ok", "pv": "plain", "body": ["odd", 20, 0]},
    ],
    "w-path-as-authority-unsplittable": [
        {"op": "reg", "peer": 0, "ep": 0, "d": 0, "shape": "ok", "pv": "plain", "body": _L(0)},
        {"op": "reg", "peer": 1, "ep": 1, "d": 0, "shape": "ok", "pv": "plain", "body": ["odd", 21, 0]},
    ],
    "w-path-as-authority-relative": [
        {"op": "reg", "peer": 0, "ep": 0, "d": 0, "shape": "ok", "pv": "plain", "body": _L(0)},
        {"op": "reg", "peer": 1, "ep": 1, "d": 0, "shape": "ok", "pv": "base-no-authority", "body": ["odd", 22, 0]},
    ],
    "w-odd-update-base-without-value": [
        {"op": "reg", "peer": 0, "ep": 0, "d": 0, "shape": "ok", "pv": "lt60", "body": _L(0)},
        {"op": "put", "peer": 0, "tgt": ["key", 0, 0], "pv": "lt180+base-novalue", "body": _L(1, 1)},
        {"op": "post", "peer": 0, "tgt": ["key", 0, 0], "pv": "none", "body": "none"},
        {"op": "idle", "how": ["boundary", "soonest", 0, "g+1"]},
    ],
}


# ---------------------------------------------------------------------------------------------- execution


def write_dims(pv, table, body):
    """The monitors (odd dimensions) a write with this parameter variant / body kind exercises."""
    out = []
    cls = table[pv][1] if pv is not None else None
    if pv is not None:
        if pv.startswith("name-"):
            out.append("write_parameter_name_not_a_parmname")
        elif pv.startswith("value-") or pv.startswith("et-backslash"):
            out.append("write_parameter_value_needing_escapes")
        elif "-novalue" in pv and "base" not in pv and "lt" not in pv.split("+")[0] or pv == "flag":
            out.append("write_parameter_without_value")
        elif "base-novalue" in pv:
            out.append("write_base_without_value")
        elif cls == "odd" and pv.split("+")[0] in ("base-foreign-link", "base-gt", "base-lt", "base-quote", "base-space", "base-tab", "base-newline"):
            out.append("write_base_with_uri_delimiter")
        elif cls == "odd" and (pv.startswith("base-empty-segment") or pv.startswith("base-query") or pv == "base-no-authority"):
            out.append("write_base_with_empty_segment_or_query")
        elif pv == "base-comma":
            pass
        elif cls == "odd" and "base-" in pv:
            out.append("write_base_not_a_uri")
    if body is not None and body[0] == "odd":
        out.append("write_links_needing_escapes" if body[1] <= 5 else "write_link_attributes_without_value" if body[1] == 6 else "write_link_target_not_a_uri" if body[1] <= 9 else "write_link_target_with_uri_delimiter" if body[1] <= 12 else "write_relative_links_with_empty_segment_or_query" if body[1] <= 15 else "write_link_anchor_without_value" if body[1] <= 17 else "write_link_attributes_empty_or_without_value" if body[1] <= 19 else "write_link_target_path_with_leading_double_slash")
    return out


def alt_why(opclass, cc):
    # a request answered 5.xx was not successful either; kept apart from the 4.xx ones in the naming
    return opclass if cc != 5 else "5xx/" + opclass


def alt_name(w):
    return "failed-" + w[4:] if w.startswith("5xx/") else "rejected-" + w


class Stop(Exception):
    """The rest of this history cannot be judged (a violation was reported or the model lost track)."""


def compare(ref, model, obs):
    exp = model.expected()
    mm = []
    if obs["ep"] != exp["ep"]:
        mm.append(("lookup-ep", ref.diff(exp["ep"], obs["ep"]) if isinstance(obs["ep"], list) else {"error": obs["ep"]}))
    if obs["res"] != exp["res"]:
        mm.append(("lookup-res", ref.diff(exp["res"], obs["res"]) if isinstance(obs["res"], list) else {"error": obs["res"]}))
    for loc, (code, links) in sorted(obs["reg"].items()):
        if loc in exp["reg"]:
            if code >> 5 != 2 or links != exp["reg"][loc]:
                mm.append(("regres", {"loc": loc, "code": "%d.%02d" % (code >> 5, code & 31), "got": links if not isinstance(links, list) else links[:6], "want": exp["reg"][loc][:6]}))
        elif code >> 5 == 2:
            mm.append(("regres-dead", {"loc": loc, "code": "%d.%02d" % (code >> 5, code & 31), "got": links if not isinstance(links, list) else links[:6]}))
    return mm


def mm_kind(mm):
    which, d = mm[0]
    if which in ("lookup-ep", "lookup-res") and "error" not in d:
        if d["missing"] and not d["unexpected"]:
            return which, "missing"
        if d["unexpected"] and not d["missing"]:
            return which, "unexpected"
        return which, "differs"
    if which == "regres-dead":
        return which, "still-served"
    return which, "differs"


# When several rejected requests could explain an observed lifetime the violation is filed under the first of this
# order (naming only; the witness lists all of them).
ALT_ORDER = ["update-post-with-body", "update-put", "update-post", "reregister", "simple-reregister"]


def alt_rank(a):
    # a request that broke off with 5.xx is the likelier one to have been carried out in part than one that was refused
    w = a[2]
    five = w.startswith("5xx/")
    w = w[4:] if five else w
    return (not five, ALT_ORDER.index(w) if w in ALT_ORDER else len(ALT_ORDER), a[0])


class Runner:
    def __init__(self, loop, rep, case, h, grace, mods):
        self.loop, self.rep, self.case, self.h, self.grace = loop, rep, case, h, grace
        self.simnet, self.rc, self.reflink, self.ref, self.rdmod, self.asyncio = mods
        self.model = self.ref.Model(grace)
        self.client_loc = {}  # key -> (loc, segs): what the registrant remembers
        self.locsegs = {}  # loc -> segs
        self.trace = []
        self.tokn = 0
        self.waiting = {}
        self.sig = []
        self.nontrivial = False
        self.put_codes = set()
        self.stopped = None
        self.fetch = None  # the registrant's script for the directory's GET /.well-known/core during a simple registration
        self.eps = list(h.get("eps") or EPS)  # the endpoint names of this history

    # -- plumbing -------------------------------------------------------------------------------------
    async def setup(self):
        sn, rc = self.simnet, self.rc
        self.net = sn.SimNet(self.loop)
        self.srv = await sn.make_context(self.net, "10.0.0.1", 5683, None)
        # the way `aiocoap-rd` composes it (cli/rd.py Main.start): context first, then the site that needs the context
        self.site = self.rdmod.StandaloneResourceDirectory(context=self.srv)
        self.srv.serversite = self.site
        self.S = sn.addr("10.0.0.1", 5683)
        self.peers = [sn.RawPeer(self.net, ip, port, on_msg=self._on_msg) for ip, port in PEERS]
        code, links, _raw = await self.get_links(0, [".well-known", "core"], ["rt=core.rd*"])
        paths = {}
        if isinstance(links, list):
            for l in links:
                for rt in self.reflink.targets(l, "rt"):
                    if l.href.startswith("/"):
                        paths.setdefault(rt, l.href[1:].split("/"))
        missing = [rt for rt in ("core.rd", "core.rd-lookup-ep", "core.rd-lookup-res") if rt not in paths]
        if missing:
            raise Unusable("discovery did not list %r (answer %r)" % (missing, _raw[:200]))
        self.rd_path, self.ep_path, self.res_path = paths["core.rd"], paths["core.rd-lookup-ep"], paths["core.rd-lookup-res"]

    def _on_msg(self, peer, src, m, data):
        rc = self.rc
        if m is None:
            return
        if 1 <= m.code <= 31:
            self._serve(peer, src, m)
            return
        if m.type == rc.CON and m.code != 0:
            peer.send(src, rc.Msg(rc.ACK, 0, m.mid, b"", (), b""))
        fut = self.waiting.get(m.token) if m.code != 0 else None
        if fut is not None and not fut.done():
            fut.set_result(m)

    # -- the registrant as a server: what the directory gets when it fetches /.well-known/core (RFC 9176 5.1) ------------
    def reaction_of(self, react, tag):
        """-> (response code, content-format, payload, links the payload means | None)"""
        kind = react[0]
        c = lambda s: (int(s[0]) << 5) | int(s[2:])  # noqa: E731
        if kind == "links":
            p = linkset(react[1], "%sv%d" % (tag, react[2] % 3))
            return c("2.05"), 40, p, self.reflink.parse(p)
        if kind == "odd":
            p, meant, _how = oddlinkset(react[1], "%sv%d" % (tag, react[2] % 3))
            return c("2.05"), 40, p, [self.reflink.Link(h, tuple(ps)) for h, ps in meant]
        if kind == "empty":
            return c("2.05"), 40, b"", []
        if kind == "error":
            return c(react[1]), None, b"no", None
        if kind == "error-with-links":
            p = linkset(react[2], "%sv%d" % (tag, react[3] % 3)) or b"</z>"
            return c(react[1]), 40, p, None
        if kind == "cf-text":
            p = linkset(react[1], "%sv%d" % (tag, react[2] % 3)) or b"</z>"
            return c("2.05"), 0, p, None
        if kind == "cf-missing":
            # no Content-Format on the answer to a request with Accept: link-format: nothing else can have been meant
            p = linkset(react[1], "%sv%d" % (tag, react[2] % 3)) or b"</z>"
            return c("2.05"), None, p, self.reflink.parse(p)
        if kind == "malformed":
            return c("2.05"), 40, MALFORMED[react[1]], None
        return None, None, b"", None  # silence, rst, not-found-there

    def _serve(self, peer, src, m):
        rc = self.rc
        f = self.fetch
        path = [v.decode("utf8", "replace") for v in rc.opt(m, 11)]
        acc = rc.opt1(m, 17)
        self.rep.seen("requests_from_the_directory", "%s %s /%s accept=%s%s" % ("CON NON".split()[m.type] if m.type < 2 else "?", rc.code_str(m.code), "/".join(path), "-" if acc is None else rc.uint_value(acc), "" if rc.opt1(m, 23) is None else " block2"))

        def answer(code, opts=(), payload=b""):
            if m.type == rc.CON:
                peer.send(src, rc.Msg(rc.ACK, code, m.mid, m.token, tuple(opts), payload))
            else:
                peer.send(src, rc.Msg(rc.NON, code, peer.next_mid(), m.token, tuple(opts), payload))

        if f is None or self.peers[f["peer"]] is not peer or src != self.S:
            self.rep.count("fetch_outside_a_simple_registration")
            answer((4 << 5) | 4)
            return
        first = m.mid not in f["mids"]
        f["mids"][m.mid] = f["mids"].get(m.mid, 0) + 1
        f["seen"] += 1
        kind = f["react"][0]
        if kind == "silence":
            return
        if kind == "rst":
            peer.send(src, rc.Msg(rc.RST, 0, m.mid, b"", (), b""))
            return
        if kind == "not-found-there" or m.code != 1 or path != [".well-known", "core"]:
            answer((4 << 5) | 4)
            return
        code, cf, payload, _links = f["answer"]
        mode = f["mode"]
        if mode == "late" and first and len(f["mids"]) == 1:
            return  # lost on the way: the directory retransmits
        b2 = rc.opt1(m, 23)
        opts = []
        if cf is not None:
            opts.append((12, rc.uint_bytes(cf)))
        if mode in ("block16", "block32") or b2 is not None:
            szx = {"block16": 0, "block32": 1}.get(mode, 6)
            num = 0
            if b2 is not None:
                num, _more, want = rc.block_value(b2)
                szx = min(szx, want)  # follow-up requests name the size we served; a smaller wish is honoured
            size = 16 << szx
            part = payload[num * size : (num + 1) * size]
            opts.append((23, rc.block_bytes(num, (num + 1) * size < len(payload), szx)))
            payload = part
            f["blocks"] += 1
        if mode == "separate" and m.type == rc.CON and b2 is None:
            peer.send(src, rc.Msg(rc.ACK, 0, m.mid, b"", (), b""))
            tok = m.token
            self.loop.call_later(f["delay"], lambda: peer.send(src, rc.Msg(rc.CON, code, peer.next_mid(), tok, tuple(opts), payload)))
            return
        answer(code, opts, payload)

    async def request1(self, pi, code, segs, queries=(), payload=b"", cf=None, b2=None, timeout=20.0):
        rc = self.rc
        peer = self.peers[pi]
        self.tokn += 1
        tok = self.tokn.to_bytes(3, "big")
        opts = [(11, s.encode("utf8")) for s in segs]
        if cf is not None:
            opts.append((12, rc.uint_bytes(cf)))
        opts += [(15, q.encode("utf8")) for q in queries]
        if b2 is not None:
            opts.append((23, rc.block_bytes(*b2)))
        fut = self.loop.create_future()
        self.waiting[tok] = fut
        peer.send(self.S, rc.Msg(rc.CON, code, peer.next_mid(), tok, tuple(opts), payload))
        try:
            return await self.asyncio.wait_for(fut, timeout)
        except self.asyncio.TimeoutError:
            return None
        finally:
            self.waiting.pop(tok, None)

    async def request(self, pi, code, segs, queries=(), payload=b"", cf=None, szx=None, timeout=20.0):
        """-> (response Msg of the first block | None, complete payload)"""
        rc = self.rc
        m = await self.request1(pi, code, segs, queries, payload, cf, None if szx is None else (0, False, szx), timeout=timeout)
        if m is None:
            return None, b""
        body = m.payload
        first = m
        n = 0
        while True:
            b = rc.opt1(m, 23)
            if b is None:
                break
            num, more, sz = rc.block_value(b)
            if not more:
                break
            n += 1
            if n == 1:
                self.rep.count("responses_fetched_blockwise")
            if n > 400:
                raise Unusable("endless block-wise response")
            m = await self.request1(pi, code, segs, queries, b"", cf, (num + 1, False, sz))
            if m is None or m.code >> 5 != 2:
                raise Unusable("block-wise follow-up failed: %r" % (m,))
            body += m.payload
        return first, body

    async def get_links(self, pi, segs, queries=(), szx=None):
        m, body = await self.request(pi, 1, segs, queries, szx=szx)
        if m is None:
            return 0, "no response", b""
        if m.code >> 5 != 2:
            return m.code, "code %s" % self.rc.code_str(m.code), body
        try:
            links = self.reflink.parse(body)
        except self.reflink.Malformed as e:
            return m.code, "unparsable link-format: %s" % e, body
        for l in links:
            # RFC 6690 2: what stands between '<' and '>' is a URI-Reference; the characters that DELIMIT a URI (RFC 3986
            # appendix C: blank, control, '<', '>', '"') cannot be part of one
            if self.ref.has_uri_delimiter(l.href):
                return m.code, "unparsable link-format: the target %r is no URI-Reference (it contains a character that delimits URIs)" % (l.href[:60],), body
        return m.code, links, body

    # -- observation ------------------------------------------------------------------------------------
    def norm_href(self, h):
        if self.ref.is_absolute(h) or h.startswith("//"):
            r = self.ref.resolve("coap://10.0.0.1/", h)
            for pre in ("coap://10.0.0.1:5683", "coap://10.0.0.1"):
                if r.startswith(pre + "/"):
                    return r[len(pre) :]
        return h

    async def observe(self, probe):
        ref = self.ref
        szx = self.h.get("sweep_szx")
        code, links, _ = await self.get_links(0, self.ep_path, szx=szx)
        obs = {}
        if isinstance(links, list):
            links = [self.reflink.Link(self.norm_href(l.href), l.params) for l in links]
            obs["ep"] = ref.canon_ep(links)
        else:
            obs["ep"] = links
        code, links, _ = await self.get_links(0, self.res_path, szx=szx)
        obs["res"] = ref.canon_res(links) if isinstance(links, list) else links
        obs["reg"] = {}
        for loc in probe:
            code, links, _ = await self.get_links(0, self.locsegs[loc], szx=szx)
            obs["reg"][loc] = (code, ref.canon_links(links) if isinstance(links, list) else links)
        return obs

    def adopt_default_bases(self, model, obs):
        """Where the statement leaves the spelling of the registrant's address open, take the directory's."""
        if not isinstance(obs["ep"], list):
            return
        for r in model.live.values():
            if r.base_explicit:
                continue
            for href, attrs in obs["ep"]:
                if href != r.loc:
                    continue
                for k, v in attrs:
                    if k == "base" and v is not None and v != r.base and self.ref.canon_origin_uri(v) == self.ref.canon_origin_uri(r.base):
                        r.base = v
                        self.rep.count("default_base_spelling_adopted")

    def viol(self, key, what, **extra):
        w = {"history_tail": self.trace[-14:], "t": round(self.loop.time(), 3)}
        w.update(extra)
        self.rep.violation(key, what, w, self.case)

    def model_summary(self, model=None):
        model = model or self.model
        return [{"key": list(r.key), "loc": r.loc, "lt": r.lt, "written": round(r.t, 3), "base": r.base, "extras": r.extras, "nlinks": len(r.links), "alts": [(round(t, 3), lt, w) for (t, lt, w) in r.alts], "latent": list(r.latent)} for r in model.live.values()]

    async def sweep(self, ctx):
        """Fetch everything, compare with the model. ctx: kind ('op'|'idle'), opclass, cc (response class), cands."""
        ref, rep = self.ref, self.rep
        now = self.loop.time()
        pre_locs = set(ctx.get("pre_locs", ()))
        expired = self.model.expire(now)
        cands = list(ctx.get("cands", ()))
        for _n, c in cands:
            c.expire(now)
        probe = sorted(set(r.loc for r in self.model.live.values()) | pre_locs | set(g.loc for g in self.model.ghosts) | set(self.model.freed[-3:]) | set(r.loc for r in expired))
        obs = await self.observe(probe)
        for m in [self.model] + [c for _n, c in cands]:
            self.adopt_default_bases(m, obs)
        rep.monitor("lookup_ep_matches_model")
        rep.monitor("lookup_res_matches_model")
        corners = sum(1 for r in self.model.live.values() if ref.resolution_features(r))
        if corners:
            # live registrations whose listed targets / anchors depend on RFC 3986 5.2 keeping an empty path segment or an empty query
            rep.monitor("resolution_with_empty_segment_or_query_listed", corners)
        rep.monitor("registration_resource_matches_model", len(probe))
        if ctx["kind"] == "op" and ctx.get("cc") == 4 and ctx.get("write"):
            rep.monitor("unchanged_after_4xx")
        tail = [r for r in self.model.live.values() if now - r.t > r.lt - 1.5]
        if expired or tail:
            rep.monitor("expiry", len(expired) + len(tail))
            self.nontrivial = True
        # location rules visible in the lookup itself
        if isinstance(obs["ep"], list):
            hrefs = [h for h, _a in obs["ep"]]
            keys = [(dict(a).get("ep"), dict(a).get("d")) for _h, a in obs["ep"]]
            if len(set(hrefs)) != len(hrefs):
                self.viol("location/shared-by-distinct-registrations", "the endpoint lookup lists two registrations at one location", lookup=obs["ep"][:8])
                raise Stop
            if len(set(keys)) != len(keys):
                self.viol("location/two-registrations-for-one-ep-d", "the endpoint lookup lists two registrations with the same endpoint name and sector", lookup=obs["ep"][:8])
                raise Stop
        mm = compare(ref, self.model, obs)
        if not mm:
            self.model.prune_refuted(now)
            return
        opclass = ctx.get("opclass", "idle")
        if "cands_fn" in ctx:
            # candidates that need the observation (the location a registration that should not exist was given)
            for name, c in ctx["cands_fn"](obs):
                c.expire(now)
                self.adopt_default_bases(c, obs)
                cands.append((name, c))
        # 1. a request answered 4.xx (5.xx) that was nevertheless (partly) carried out
        for name, cand in cands:
            if not compare(ref, cand, obs):
                lost = [r for k, r in self.model.live.items() if k not in cand.live]
                if name.endswith("registration-removed") and lost and all(any(now >= a[0] + a[1] + self.grace for a in r.alts) for r in lost):
                    # the request took so long that a lifetime carried by an earlier unsuccessful request ran out meanwhile:
                    # that is what 2. below reports; this request need not have removed anything
                    continue
                if ctx["cc"] in (0, 4):
                    self.viol(
                        "%s-%s/%s" % ("rejected" if ctx["cc"] == 4 else "unanswered", opclass, name),
                        "a %s answered %s changed the directory: %s" % (opclass.replace("-", " "), ctx["code_str"], name.replace("-", " ")),
                        mismatch=[(w, d) for w, d in mm][:3],
                        model_before=ctx.get("before"),
                    )
                else:
                    rep.count("state_changed_by_request_answered_5xx")
                    rep.seen("5xx_state_change", "%s/%s" % (opclass, name))
                self.model = cand
                return
        # 2. liveness explained by the lifetime a rejected request carried
        adj = self.model.clone()
        why = []
        if isinstance(obs["ep"], list):
            listed = set(h for h, _a in obs["ep"])
            for g in list(adj.ghosts):
                if g.loc in listed and g.key not in adj.live:
                    expl = sorted([a for a in g.alts if now < a[0] + a[1] + self.grace], key=alt_rank)
                    if expl:
                        g.t, g.lt = expl[0][0], expl[0][1]
                        # (the other lifetimes that explain it as well stay candidates: which one is at work shows later)
                        g.alts = [a for a in g.alts if a[0] >= g.t and a != expl[0]]
                        adj.ghosts.remove(g)
                        adj.live[g.key] = g
                        if g.loc in adj.freed:
                            adj.freed.remove(g.loc)
                        why.append(("listed-beyond", expl[0][2], g, expl))
            for r in list(adj.live.values()):
                if r.loc not in listed:
                    expl = sorted([a for a in r.alts if now >= a[0] + a[1] + self.grace], key=alt_rank)
                    if expl:
                        adj.remove(r)
                        why.append(("dropped-before", expl[0][2], r, expl))
        if why and not compare(ref, adj, obs):
            for how, w, r, expl in why:
                self.viol(
                    "expiry/lifetime-set-by-%s" % alt_name(w),
                    "a registration is %s the lifetime of its latest successful write; the lifetime matches a %s that was answered %s" % ("listed beyond" if how == "listed-beyond" else "gone before the end of", w.replace("5xx/", "").replace("-", " "), "5.xx" if w.startswith("5xx/") else "4.xx"),
                    registration={"key": list(r.key), "loc": r.loc},
                    rejected_requests_that_explain_it=[{"t": round(t, 3), "lt": lt, "request": x} for (t, lt, x) in expl],
                    mismatch=[(x, d) for x, d in mm][:3],
                    model=self.model_summary(),
                )
            self.model = adj
            return
        # 3. links listed without being resolved against the registration base
        if [w for w, _d in mm] == ["lookup-res"] and isinstance(obs["res"], list):
            adj = self.model.clone()
            hit = []
            for r in adj.live.values():
                if not r.unresolved and r.links:
                    un, rs = r.unresolved_res_entries(), r.res_entries()
                    if un != rs and all(e in obs["res"] for e in un) and not all(e in obs["res"] for e in rs):
                        r.unresolved = True
                        hit.append(r)
            if hit and not compare(ref, adj, obs):
                self.viol(
                    "lookup-res/links-not-resolved-against-base",
                    "the resource lookup lists the links of a registration as registered (relative references) instead of resolved against its base",
                    bases=[r.base for r in hit],
                    mismatch=mm[0][1],
                )
                self.model = adj
                return
        # 4. an answer that fails, does not parse or lists something else while registrations with odd content (see
        #    ODD_PV, oddlinkset) are concerned: named after that content
        key = self.attribute(mm, obs, ctx.get("naming_model"))
        if key is not None:
            self.viol(key[0], key[1] + " (after %s answered %s)" % (ctx.get("opclass", "an idle step"), ctx.get("code_str", "-")), mismatch=[(w, d) for w, d in mm][:3], model=self.model_summary())
            raise Stop
        # 5. anything else: report and stop judging this history
        which, kind = mm_kind(mm)
        if ctx["kind"] == "idle":
            if which == "lookup-ep" and kind == "unexpected":
                key = "expiry/listed-after-lifetime-plus-grace"
            elif which == "lookup-ep" and kind == "missing":
                key = "expiry/missing-within-lifetime"
            else:
                key = "expiry/%s-%s-after-idle" % (which, kind)
        elif ctx.get("cc") == 4:
            key = "rejected-%s/%s-%s" % (opclass, which, kind)
        elif ctx.get("cc") == 0:
            key = "unanswered-%s/%s-%s" % (opclass, which, kind)
        elif ctx.get("cc") == 5:
            rep.count("history_ended/unexplained_state_after_5xx")
            raise Stop
        else:
            key = "%s/%s-after-%s" % (which, kind, opclass)
        self.viol(key, "after %s (answered %s) the directory differs from the reference model in %s" % (opclass, ctx.get("code_str", "-"), ", ".join(w for w, _d in mm)), mismatch=[(w, d) for w, d in mm][:4], model=self.model_summary())
        raise Stop

    INJ_TEXT = {
        "parameter-name": "a registration parameter whose name is no RFC 6690 parmname was accepted and is written into the endpoint lookup as it came",
        "parameter-value": "a registration parameter (or endpoint name) whose value contains a backslash was accepted and is not listed with that value",
        "link-attribute-value": "a link whose attribute value contains a backslash (RFC 6690 quoted-pair) was accepted and is not listed with that value",
    }
    URI_TEXT = {
        "base": "a registration whose base has no RFC 3986 authority (so nothing can be resolved against it) was accepted",
        "link-target": "a link whose target or anchor has no RFC 3986 authority (so it cannot be resolved) was accepted",
    }

    TGT_TEXT = {
        "base": "a registration whose base contains a character that delimits URIs (blank, control, '<', '>', '\"') was accepted, and the base is written between the '<' and '>' of every link of that endpoint",
        "link-target": "a link whose target contains a character that delimits URIs (blank, control, '<', '\"') was accepted and is written out as it came",
    }
    RES_TEXT = {
        "empty-path-segment": "a relative-path reference was resolved against the registration base where the merged path has an empty segment ('//')",
        "empty-query-reference": "a reference with an empty query ('?') was resolved against the registration base",
    }

    NEW_TEXT = {
        "valueless-anchor": "a link whose anchor attribute has no value was accepted",
        "path-as-authority": "a link whose target or anchor, once its dot segments are removed, has no authority and a path beginning with '//' was accepted (written out as it is the first path segment reads as an authority)",
    }

    def attribute(self, mm, obs, model=None):
        """Name a mismatch after the odd content of the registrations concerned. -> (key, text) | None.
        Only naming: that there IS a violation was decided by the comparison with the model."""
        ref = self.ref
        which, d = mm[0]
        live = list((model or self.model).live.values())
        involved = live
        if which in ("lookup-ep", "lookup-res"):
            if "error" in d:
                err = str(d["error"])
                sym = "fails" if err.startswith("code ") else "unparsable" if err.startswith("unparsable") else None
            else:
                sym = "wrong-entries"
                seen = obs["ep" if which == "lookup-ep" else "res"]
                if which == "lookup-ep":
                    inv = [r for r in live if r.ep_entry() not in seen]
                else:
                    inv = [r for r in live if any(e not in seen for e in r.res_entries())]
                involved = inv or live
        elif which == "regres":
            involved = [r for r in live if r.loc == d["loc"]]
            got = d["got"]
            sym = "wrong-entries" if isinstance(got, list) else "unparsable" if str(got).startswith("unparsable") else "fails" if str(got).startswith("code ") else None
        else:
            return None
        if sym is None:
            return None
        feats = set()
        for r in involved:
            feats |= ref.features(r)
        if sym == "fails":
            for f in ("valueless-anchor", "path-as-authority"):
                if f in feats:
                    return "%s/%s-fails" % (f, which), "%s; the %s now answers %s" % (self.NEW_TEXT[f], which.replace("lookup-ep", "endpoint lookup").replace("lookup-res", "resource lookup").replace("regres", "registration resource"), d.get("error") or d.get("got"))
            for f in ("base", "link-target"):
                if f in feats:
                    return "unresolvable-uri/%s/%s-fails" % (f, which), "%s; the %s now answers %s" % (self.URI_TEXT[f], which.replace("lookup-ep", "endpoint lookup").replace("lookup-res", "resource lookup").replace("regres", "registration resource"), d.get("error") or d.get("got"))
            return None
        if which != "lookup-ep":
            for f, name in (("delimiter-in-base", "base"), ("delimiter-in-link-target", "link-target")):
                if f in feats and (f != "delimiter-in-base" or which == "lookup-res"):
                    return "target-injection/%s/%s-%s" % (name, which, sym), "%s; the %s %s" % (self.TGT_TEXT[name], which.replace("lookup-res", "resource lookup").replace("regres", "registration resource"), "is no link-format any more" if sym == "unparsable" else "lists other links than were registered")
        if which == "lookup-res" and sym == "wrong-entries":
            for f in ("path-as-authority", "valueless-anchor"):
                if f in feats:
                    return "%s/lookup-res-wrong-entries" % f, "%s; the resource lookup lists other links than were registered" % self.NEW_TEXT[f]
            for f in ("empty-path-segment", "empty-query-reference"):
                if f in feats:
                    return "resolution-not-rfc3986/%s/lookup-res-wrong-entries" % f, "%s; the resource lookup lists other targets or anchors than RFC 3986 5.2 gives" % self.RES_TEXT[f]
        order = ("parameter-name", "parameter-value") if which == "lookup-ep" else ("link-attribute-value",)
        for f in order:
            if f in feats:
                return "linkformat-injection/%s/%s-%s" % (f, which, sym), "%s; the %s %s" % (self.INJ_TEXT[f], which.replace("lookup-ep", "endpoint lookup").replace("lookup-res", "resource lookup").replace("regres", "registration resource"), "is no link-format any more" if sym == "unparsable" else "lists other entries than were registered")
        return None

    def attribute_filter(self, kind, names, got, want):
        """The same for a filtered lookup. -> (key, text) | None"""
        ref = self.ref
        live = list(self.model.live.values())
        feats = set()
        for r in live:
            feats |= ref.features(r)
        if not isinstance(got, list):
            err = str(got)
            if err.startswith("code "):
                for f in ("valueless-anchor", "path-as-authority"):
                    if f in feats:
                        return "%s/lookup-%s-fails" % (f, kind), "%s; a filtered lookup now answers %s" % (self.NEW_TEXT[f], err[5:])
                if any(n in ref.valueless_names(r) for r in live for n in names):
                    return "valueless-attribute/lookup-%s-fails" % kind, "a lookup filtering on a name that some registration carries as a parameter or link attribute WITHOUT a value (RFC 6690 4.1: it then matches no value) is answered %s" % err[5:]
                for f in ("base", "link-target"):
                    if f in feats:
                        return "unresolvable-uri/%s/lookup-%s-fails" % (f, kind), "%s; a filtered lookup now answers %s" % (self.URI_TEXT[f], err[5:])
            elif err.startswith("unparsable"):
                for f, name in (("delimiter-in-base", "base"), ("delimiter-in-link-target", "link-target")) if kind == "res" else ():
                    if f in feats:
                        return "target-injection/%s/lookup-res-unparsable" % name, "%s; a filtered lookup is no link-format any more" % self.TGT_TEXT[name]
                for f in ("parameter-name", "parameter-value") if kind == "ep" else ("link-attribute-value",):
                    if f in feats:
                        return "linkformat-injection/%s/lookup-%s-unparsable" % (f, kind), "%s; a filtered lookup is no link-format any more" % self.INJ_TEXT[f]
            return None
        delta = [e for e in want if e not in got] + [e for e in got if e not in want]
        inv = [r for r in live if (r.ep_entry() in delta if kind == "ep" else any(e in delta for e in r.res_entries()))]
        if not inv:
            return None
        if all(ref.resolution_features(r) for r in inv):
            f = sorted(set(x for r in inv for x in ref.resolution_features(r)))[0]
            return "resolution-not-rfc3986/%s/filter-mismatch" % f, "%s; a lookup filtering on the resolved target, or the entries it lists, differ from what RFC 3986 5.2 gives" % self.RES_TEXT[f]
        found = set()
        for r in inv:
            f = ref.features(r)
            bs_names = set(k for k, vs in r.extras for v in vs if v is not None and "\\" in v)
            if "\\" in r.key[0]:
                bs_names.add("ep")
            if any(n in bs_names for n in names):
                found.add("parameter-value")
            elif "link-attribute-value" in f:
                found.add("link-attribute-value")
            else:
                return None
        f = sorted(found, reverse=True)[0]
        return "linkformat-injection/%s/filter-mismatch" % f, "%s; a lookup filtering on such a value does not list exactly the matching entries" % self.INJ_TEXT[f]

    async def settle(self):
        slept = False
        while True:
            now = self.loop.time()
            near = [hi for lo, hi in self.model.windows() if lo - 0.9 < now < hi + 0.5]
            if not near:
                return slept
            await self.asyncio.sleep(max(near) + 0.5 + 1e-3 - now)
            slept = True

    # -- steps --------------------------------------------------------------------------------------------
    def target(self, tgt):
        """-> (loc, segs) or None when the registrant knows no location to build one from"""
        if tgt[0] == "key":
            key = (self.eps[tgt[1]], SECTORS[tgt[2]])
            if key in self.client_loc:
                return self.client_loc[key]
            tgt = ["never"]
        if tgt[0] == "stale":
            dead = [l for l in self.model.freed if self.model.at(l) is None]
            if len(dead) > tgt[1]:
                loc = dead[-1 - tgt[1]]
                return loc, self.locsegs[loc]
            tgt = ["never"]
        if not self.locsegs:
            return None
        segs = list(sorted(self.locsegs.items())[0][1])
        for i, s in enumerate(segs):
            if s.isdigit():
                segs[i] = "9999"
                break
        else:
            segs.append("9999")
        loc = "/" + "/".join(segs)
        self.locsegs.setdefault(loc, segs)
        return loc, segs

    def body_of(self, body, tag):
        """-> (payload, content-format, parsed links | None)"""
        kind = body[0]
        if kind == "links":
            p = linkset(body[1], "%sv%d" % (tag, body[2] % 3))
            return p, 40, self.reflink.parse(p)
        if kind == "odd":
            p, meant, _how = oddlinkset(body[1], "%sv%d" % (tag, body[2] % 3))
            return p, 40, [self.reflink.Link(h, tuple(ps)) for h, ps in meant]
        if kind == "malformed":
            return MALFORMED[body[1]], 40, None
        if kind == "cf-text":
            return linkset(body[1], "%sv%d" % (tag, body[2] % 3)), 0, None
        if kind == "cf-missing":
            p = linkset(body[1], "%sv%d" % (tag, body[2] % 3)) or b"</z>"
            return p, None, None
        return b"", None, None

    def pin(self, st, cc, code_str):
        must = st.get("must")
        if must is None:
            return
        self.rep.monitor("acceptance_pins")
        if must == "accept" and cc != 2:
            self.viol("pin/valid-request-rejected/" + st["pin"], "a canonical valid request was answered %s" % code_str)
        elif must == "reject" and cc != 4:
            self.viol("pin/invalid-request-not-rejected/" + st["pin"], "a canonical invalid request was answered %s instead of 4.xx" % code_str)
        elif must == "refuse-or-silent" and cc not in (0, 4, 5):
            self.viol("pin/invalid-request-not-rejected/" + st["pin"], "a registration that cannot be carried out was answered %s" % code_str)
        elif must == "refuse" and cc not in (4, 5):
            self.viol("pin/invalid-request-not-rejected/" + st["pin"], "a registration that cannot be carried out was answered %s instead of an error" % code_str)
        elif must == "accept-or-405" and cc != 2 and code_str != "4.05":
            self.viol("pin/valid-request-rejected/" + st["pin"], "a canonical valid request was answered %s (neither 2.xx nor 4.05)" % code_str)

    def note(self, st, desc, m):
        code_str = "none" if m is None else self.rc.code_str(m.code)
        self.trace.append({"t": round(self.loop.time(), 3), "request": desc, "answer": code_str})
        return (0 if m is None else m.code >> 5), code_str

    async def do_reg(self, st):
        ref, rep = self.ref, self.rep
        ep, d = self.eps[st["ep"]], SECTORS[st["d"]]
        shape = st["shape"]
        q = {"ok": ["ep=" + ep], "ep-missing": [], "ep-repeated": ["ep=" + ep, "ep=other"], "d-repeated": ["ep=" + ep, "d=x", "d=y"], "ep-novalue": ["ep"]}[shape]
        if d is not None and shape != "d-repeated":
            q.append("d=" + d)
        q = q + list(REG_PV[st["pv"]][0])
        tag = "e%d%s" % (st["ep"], d or "")
        payload, cf, links = self.body_of(st["body"], tag)
        key = (ep, d)
        now = self.loop.time() + 0.001
        self.model.expire(now)
        old = self.model.live.get(key) if shape in ("ok", "ep-repeated", "d-repeated") else None
        opclass = "reregister" if old is not None else "register-new"
        before = self.model_summary()
        pre_locs = [r.loc for r in self.model.live.values()]
        src = PEERS[st["peer"]]
        cands = []
        if old is not None:
            c = self.model.clone()
            c.remove(c.live[key])
            cands.append(("old-registration-removed", c))
            if links is not None:
                for lenient, name in ((False, "applied"), (True, "partially-applied")):
                    c = self.model.clone()
                    try:
                        c.register(key, old.loc, ref.parse_query(q), links, src, now, lenient=lenient)
                        cands.append((name, c))
                    except ref.Unappliable:
                        pass
        m, _body = await self.request(st["peer"], 2, self.rd_path, q, payload, cf)
        cc, code_str = self.note(st, {"POST": "/" + "/".join(self.rd_path), "from": "%s:%d" % src, "query": q, "cf": cf, "payload": payload.decode("latin1")[:120]}, m)
        self.sig.append((opclass, shape, st["pv"], st["body"][0], cc))
        rep.seen("acceptance", "%s/%s/%s/%s -> %s" % (opclass, shape, REG_PV[st["pv"]][1], st["body"][0], code_str))
        self.pin(st, cc, code_str)
        if old is not None:
            self.nontrivial = True
        if cc == 0:
            self.viol("no-response/" + opclass, "a registration request got no response within 20 s")
            raise Stop
        ctx = {"kind": "op", "opclass": opclass, "cc": cc, "code_str": code_str, "write": True, "before": before, "pre_locs": pre_locs}
        if cc == 2:
            segs = [v.decode("utf8") for v in self.rc.opt(m, 8)]
            rep.monitor("location_rules")
            if not segs:
                self.viol("location/missing-location-path-on-2.01", "a registration was answered %s without Location-Path" % code_str)
                raise Stop
            loc = "/" + "/".join(segs)
            self.locsegs[loc] = segs
            if shape != "ok" or links is None:
                rep.count("history_ended/accepted_request_without_defined_meaning")
                rep.seen("accepted_uninterpretable", "%s/%s/%s" % (shape, st["pv"], st["body"][0]))
                raise Stop
            if old is not None:
                if loc != old.loc:
                    self.viol("location/reregistration-changed-location", "re-registering (ep, d) = %r returned %s, the registration was at %s" % (key, loc, old.loc))
            else:
                other = self.model.at(loc)
                if other is not None and self.gone_by_alt(other, now):
                    other = None
                if other is not None:
                    self.viol("location/shared-by-distinct-registrations", "the new registration %r got location %s of the live registration %r" % (key, loc, other.key))
                    raise Stop
                if loc in self.model.freed:
                    # The statement's "distinct registrations never share a location" is judged for registrations that are
                    # live together. Handing the location of a removed / expired registration to a later, different one is
                    # what _new_pathtail does by design (RFC 9176 is silent); it is counted, and judged only on request.
                    rep.count("location_reused_after_free")
                    holders = [k for k, v in self.client_loc.items() if v[0] == loc and k != key]
                    if holders:
                        rep.count("location_reused_while_remembered_for_another_ep_d")
                        if JUDGE_LOCATION_REUSE:
                            self.viol("location/freed-location-reused-for-another-ep-d", "the location %s, still remembered by the registrant of %r (removed or expired), was given to the new registration %r: that registrant's next update or removal acts on the other registration" % (loc, holders[0], key))
            try:
                self.model.register(key, loc, ref.parse_query(q), links, src, now)
            except ref.Unappliable:
                rep.count("history_ended/accepted_request_without_defined_meaning")
                rep.seen("accepted_uninterpretable", "%s/%s/%s" % (shape, st["pv"], st["body"][0]))
                raise Stop
            self.client_loc[key] = (loc, segs)
            if b"\\" in payload:
                self.model.live[key].marks.add("link-escapes")
        else:
            if old is not None:
                old.alts.append((now, self._alt_lt(q, ref.DEFAULT_LT), alt_why(opclass, cc)))
            ctx["cands"] = cands
            if cc == 5:
                rep.count("answered_5xx")
        for dim in write_dims(st["pv"], REG_PV, st["body"]):
            rep.monitor(dim)
            rep.seen("odd_write_outcomes", "%s/%s -> %s" % (opclass, dim, code_str))
        await self.sweep(ctx)

    async def do_sreg(self, st):
        """Simple registration (RFC 9176 5.1): POST /.well-known/rd?ep=..&lt=.. without body; the directory fetches the
        registrant's /.well-known/core (the registrant's reaction is st["react"]) and answers afterwards."""
        ref, rep = self.ref, self.rep
        ep, d = self.eps[st["ep"]], SECTORS[st["d"]]
        shape = st["shape"]
        q = {"ok": ["ep=" + ep], "ep-missing": [], "ep-repeated": ["ep=" + ep, "ep=other"], "d-repeated": ["ep=" + ep, "d=x", "d=y"], "ep-novalue": ["ep"]}[shape]
        if d is not None and shape != "d-repeated":
            q.append("d=" + d)
        q = q + list(REG_PV[st["pv"]][0])
        has_base = any(x == "base" or x.startswith("base=") for x in q)
        tag = "s%d%s" % (st["ep"], d or "")
        react, mode = st["react"], st["mode"]
        answer = self.reaction_of(react, tag)
        links = answer[3]
        key = (ep, d)
        keyed = shape in ("ok", "ep-repeated", "d-repeated")
        t_lo = self.loop.time() + 0.001
        self.model.expire(t_lo)
        old_lo = self.model.live.get(key) if keyed else None
        opclass = "simple-reregister" if old_lo is not None else "simple-register-new"
        before = self.model_summary()
        pre_locs = [r.loc for r in self.model.live.values()]
        src = PEERS[st["peer"]]
        path = [".well-known", "rd"] if st["via"] == "rd" else [".well-known", "core"]
        self.fetch = f = {"peer": st["peer"], "react": react, "mode": mode, "delay": st["delay"], "answer": answer, "mids": {}, "seen": 0, "blocks": 0}
        try:
            # an unanswered fetch costs the directory up to MAX_TRANSMIT_WAIT (93 s) of virtual time before it can answer
            m, _body = await self.request(st["peer"], 2, path, q, b"", None, timeout=SREG_WAIT)
        finally:
            self.fetch = None
        t_hi = self.loop.time()
        slack = max(0.0, t_hi - t_lo)
        cc, code_str = self.note(st, {"POST": "/" + "/".join(path), "from": "%s:%d" % src, "query": q, "registrant_answers_fetch_with": react + ([mode] if answer[0] is not None else []), "fetch_requests_seen": f["seen"], "took": round(slack, 3)}, m)
        rkind = react[0] + ("/" + mode if answer[0] is not None else "")
        self.sig.append((opclass, shape, st["pv"], st["via"], rkind, cc))
        rep.seen("acceptance", "%s/%s/%s/fetch:%s -> %s" % (opclass, shape, sreg_class(st["pv"]), react[0], code_str))
        rep.seen("simple_registration_reactions", "%s -> %s" % (rkind, code_str))
        rep.count("simple_registration_fetches_seen", f["seen"])
        if f["blocks"] > 1:
            rep.count("simple_registration_fetched_blockwise")
        self.pin(st, cc, code_str)
        if old_lo is not None:
            self.nontrivial = True
        if cc == 0:
            if react[0] == "silence" and f["seen"] > 0:
                # A registrant that does not answer the directory's fetch may be left without an answer (aiocoap
                # drops what it was doing for a peer it found unreachable). Nothing was answered, nothing is
                # registered: the directory is compared with the unchanged model below.
                rep.count("simple_registration_unanswered_after_unanswered_fetch")
            else:
                self.viol("no-response/" + opclass, "a simple registration got no response within %d s although the registrant answered the directory's fetch" % SREG_WAIT)
                raise Stop
        # the model's "now" follows the virtual clock: what expired while the directory was fetching is gone
        self.model.expire(t_hi)
        old = self.model.live.get(key) if keyed else None
        # the registration the request met may have run out while the directory was fetching: then both "kept the
        # location" and "is a new registration" are right
        ambiguous = old_lo is not None and (old is None or old_lo.expiry(self.grace) < t_hi + 0.5)
        ctx = {"kind": "op", "opclass": opclass, "cc": cc, "code_str": code_str, "write": True, "before": before, "pre_locs": pre_locs}
        if cc == 2:
            rep.monitor("location_rules")
            if shape != "ok" or links is None or has_base or f["seen"] == 0 or REG_PV[st["pv"]][1] == "ext":
                rep.count("history_ended/accepted_request_without_defined_meaning")
                rep.seen("accepted_uninterpretable", "simple/%s/%s/%s" % (shape, st["pv"], react[0]))
                raise Stop
            # 2.04 carries no location (RFC 9176 5.1): the registrant learns it from the endpoint lookup
            code, listed, _raw = await self.get_links(st["peer"], self.ep_path)
            # (for naming only) the directory as it would be with this registration at a location not yet known
            withit = self.model.clone()
            try:
                withit.register(key, "/?", ref.parse_query(q), links, src, t_hi, slack=slack)
                if b"\\" in answer[2]:
                    withit.live[key].marks.add("link-escapes")
            except ref.Unappliable:
                withit = None
            for dim in write_dims(st["pv"], REG_PV, react):
                rep.monitor(dim)
                rep.seen("odd_write_outcomes", "%s/%s -> %s" % (opclass, dim, code_str))
            if not isinstance(listed, list):
                named = self.attribute([("lookup-ep", {"error": listed})], None, withit) if withit is not None else None
                if named is not None:
                    self.viol(named[0], named[1] + " (after %s answered %s)" % (opclass, code_str))
                else:
                    self.viol("lookup-ep/unusable-after-" + opclass, "the endpoint lookup after an accepted simple registration: %s" % (listed,))
                raise Stop
            mine = [self.norm_href(l.href) for l in listed if self.reflink.targets(l, "ep") == [ep] and (self.reflink.targets(l, "d") == ([d] if d is not None else []))]
            if not mine and t_lo + self._alt_lt(q, ref.DEFAULT_LT) + self.grace < t_hi + 0.5:
                # the fetch took longer than lt + grace: counted from the POST the registration has run out already
                rep.count("simple_registration_ran_out_during_fetch")
                if old is not None:
                    self.model.remove(old)
                await self.settle()
                if withit is not None:
                    withit.expire(self.loop.time())
                    ctx["naming_model"] = withit  # (should it be listed after all, under a name or value that came out differently)
                await self.sweep(ctx)
                return
            if not mine:
                seen = ref.canon_ep([self.reflink.Link(self.norm_href(l.href), l.params) for l in listed])
                named = self.attribute([("lookup-ep", {"missing": [], "unexpected": []})], {"ep": seen}, withit) if withit is not None and "parameter-value" in ref.features(withit.live[key]) else None
                if named is not None:
                    self.viol(named[0], named[1] + " (after %s answered %s)" % (opclass, code_str), lookup=seen[:8])
                else:
                    self.viol("lookup-ep/missing-after-" + opclass, "a simple registration of %r was answered %s, but the endpoint lookup does not list it" % (key, code_str), lookup=ref.canon_ep(listed)[:8])
                raise Stop
            if len(mine) > 1:
                self.viol("location/two-registrations-for-one-ep-d", "the endpoint lookup lists two registrations with the same endpoint name and sector", lookup=ref.canon_ep(listed)[:8])
                raise Stop
            loc = mine[0]
            segs = loc[1:].split("/")
            self.locsegs.setdefault(loc, segs)
            if old is not None and loc == old.loc:
                pass
            elif old is not None and not ambiguous:
                self.viol("location/reregistration-changed-location", "re-registering (ep, d) = %r by simple registration put it at %s, the registration was at %s" % (key, loc, old.loc))
            else:
                if ambiguous and old_lo is not None and loc == old_lo.loc:
                    rep.count("simple_reregistration_while_old_one_ran_out")
                other = self.model.at(loc)
                if other is not None and other.key != key and self.gone_by_alt(other, t_hi):
                    other = None
                if other is not None and other.key != key:
                    self.viol("location/shared-by-distinct-registrations", "the new registration %r got location %s of the live registration %r" % (key, loc, other.key))
                    raise Stop
                if loc in self.model.freed:
                    rep.count("location_reused_after_free")
                    holders = [k for k, v in self.client_loc.items() if v[0] == loc and k != key]
                    if holders:
                        rep.count("location_reused_while_remembered_for_another_ep_d")
                        if JUDGE_LOCATION_REUSE:
                            self.viol("location/freed-location-reused-for-another-ep-d", "the location %s, still remembered by the registrant of %r (removed or expired), was given to the new registration %r: that registrant's next update or removal acts on the other registration" % (loc, holders[0], key))
            try:
                self.model.register(key, loc, ref.parse_query(q), links, src, t_hi, slack=slack)
            except ref.Unappliable:
                rep.count("history_ended/accepted_request_without_defined_meaning")
                rep.seen("accepted_uninterpretable", "simple/%s/%s/%s" % (shape, st["pv"], react[0]))
                raise Stop
            self.client_loc[key] = (loc, self.locsegs[loc])
            if b"\\" in answer[2]:
                self.model.live[key].marks.add("link-escapes")
        else:
            if old is not None:
                # had the request been carried out although it was refused, at some instant of [t_lo, t_hi]
                lt = self._alt_lt(q, ref.DEFAULT_LT)
                old.alts.append((t_hi, lt, alt_why(opclass, cc)))
                if slack > 0.01:
                    old.alts.append((t_lo, lt, alt_why(opclass, cc)))
            if cc == 5:
                rep.count("answered_5xx")
            offered = None
            if answer[0] is not None and answer[2]:
                try:
                    offered = self.reflink.parse(answer[2])
                except self.reflink.Malformed:
                    offered = None

            def cands_fn(obs, key=key, keyed=keyed):
                out = []
                cur = self.model.live.get(key) if keyed else None
                if cur is not None:
                    c = self.model.clone()
                    c.remove(c.live[key])
                    out.append(("old-registration-removed", c))
                if not keyed or not isinstance(obs["ep"], list):
                    return out
                if cur is not None:
                    loc = cur.loc
                else:
                    there = [h for h, a in obs["ep"] if dict(a).get("ep") == key[0] and dict(a).get("d") == key[1] and ("d" in dict(a)) == (key[1] is not None)]
                    if len(there) != 1:
                        return out
                    loc = there[0]
                    self.locsegs.setdefault(loc, loc[1:].split("/"))
                for ls, nm in ((offered, "registered"), ([], "registered-without-links")):
                    if ls is None or (nm == "registered" and ls == []):
                        continue
                    for lenient, suffix in ((False, ""), (True, "-with-part-of-the-parameters")):
                        c = self.model.clone()
                        try:
                            c.register(key, loc, ref.parse_query(q), ls, src, t_hi, lenient=lenient, slack=slack)
                            out.append((nm + suffix, c))
                        except ref.Unappliable:
                            pass
                return out

            ctx["cands_fn"] = cands_fn
        # the answer may have come at an instant at which the liveness of another registration is not sampled
        await self.settle()
        for dim in write_dims(st["pv"], REG_PV, react if f["seen"] else None) if cc != 2 else ():
            rep.monitor(dim)
            rep.seen("odd_write_outcomes", "%s/%s -> %s" % (opclass, dim, code_str))
        await self.sweep(ctx)
        rep.monitor("simple_registration")
        if cc == 2:
            rep.monitor("simple_registration_listed")
        elif links is None or f["seen"] == 0:
            rep.monitor("simple_registration_failed_fetch")

    def gone_by_alt(self, other, now):
        """The location of the model's live registration `other` was handed to a new one. If the lifetime that an
        unsuccessful request carried has ended for `other`, that is the deviation to report (as the sweep would have, had
        it come first): report, drop `other` from the model, go on. -> True if so"""
        expl = sorted([a for a in other.alts if now >= a[0] + a[1] + self.grace], key=alt_rank)
        if not expl:
            return False
        w = expl[0][2]
        self.viol(
            "expiry/lifetime-set-by-%s" % alt_name(w),
            "a registration is gone before the end of the lifetime of its latest successful write (its location was given to a new registration); the lifetime matches a %s that was answered %s" % (w.replace("5xx/", "").replace("-", " "), "5.xx" if w.startswith("5xx/") else "4.xx"),
            registration={"key": list(other.key), "loc": other.loc},
            rejected_requests_that_explain_it=[{"t": round(t, 3), "lt": lt, "request": x} for (t, lt, x) in expl],
            model=self.model_summary(),
        )
        self.model.remove(other)
        return True

    def _alt_lt(self, q, fallback):
        vals = [v for (k, v) in self.ref.parse_query(q) if k == "lt"]
        if len(vals) == 1 and vals[0] is not None and vals[0].isdigit():
            return int(vals[0])
        return fallback

    async def do_update(self, st):
        ref, rep = self.ref, self.rep
        t = self.target(st["tgt"])
        if t is None:
            self.sig.append((st["op"], "skipped"))
            return
        loc, segs = t
        now = self.loop.time() + 0.001
        self.model.expire(now)
        R = self.model.at(loc)
        op = st["op"]
        src = PEERS[st["peer"]]
        before = self.model_summary()
        pre_locs = [r.loc for r in self.model.live.values()] + [loc]
        was_explicit = R.base_explicit if R is not None else None
        q, payload, cf, links = [], b"", None, None
        if op == "del":
            opclass, method = "delete", 4
        else:
            q = [x.replace("{ep}", R.key[0] if R is not None else "node1").replace("{base}", R.base if R is not None else "coap://nobody.example") for x in UPD_PV[st["pv"]][0]]
            if op == "post":
                method = 2
                payload, cf = {"none": (b"", None), "body+cf": (b"</x>;rt=\"upd\"", 40), "body-nocf": (b"</x>", None), "cf-nobody": (b"", 40)}[st["body"]]
                opclass = "update-post" if st["body"] == "none" else "update-post-with-body"
            else:
                method = 3
                tag = "e%d%s" % (self.eps.index(R.key[0]), R.key[1] or "") if R is not None else "zz"
                payload, cf, links = self.body_of(st["body"], tag + "p")
                opclass = "update-put"
        cands = []
        if R is not None:
            c = self.model.clone()
            c.remove(c.at(loc))
            cands.append(("registration-removed", c))
            if op != "del":
                for lenient, name in ((False, "params-applied"), (True, "partially-applied")):
                    c = self.model.clone()
                    try:
                        c.update(c.at(loc), ref.parse_query(q), src, now, links=links if op == "put" else None, lenient=lenient)
                        # keep the lifetime the registration had: an implementation may apply the parameters without restarting the timer
                        c.at(loc).alts.append((R.t, R.lt, opclass + "-without-restart"))
                        cands.append((name, c))
                    except ref.Unappliable:
                        pass
        m, _body = await self.request(st["peer"], method, segs, q, payload, cf)
        cc, code_str = self.note(st, {{2: "POST", 3: "PUT", 4: "DELETE"}[method]: loc, "from": "%s:%d" % src, "query": q, "cf": cf, "payload": payload.decode("latin1")[:120], "addresses": "live registration %r" % (R.key,) if R is not None else "no live registration"}, m)
        variant = (st.get("pv"), st.get("body") if op == "post" else (st["body"][0] if op == "put" else None))
        self.sig.append((opclass, "live" if R is not None else "dead", variant, cc))
        rep.seen("acceptance", "%s/%s/%s/%s -> %s" % (opclass, "live" if R is not None else "dead", UPD_PV[st["pv"]][1] if op != "del" else "-", variant[1], code_str))
        self.pin(st, cc, code_str)
        if R is None:
            self.nontrivial = True
        if cc == 0:
            self.viol("no-response/" + opclass, "a request to a registration resource got no response within 20 s")
            raise Stop
        ctx = {"kind": "op", "opclass": opclass, "cc": cc, "code_str": code_str, "write": True, "before": before, "pre_locs": pre_locs}
        if cc == 2:
            if R is None:
                self.viol("dead-location/accepted-" + opclass, "a %s addressed to %s, where no live registration exists (removed, expired or never created), was answered %s" % (opclass, loc, code_str), model=self.model_summary())
                raise Stop
            if op == "del":
                self.model.remove(R)
            else:
                if op == "put" and links is None:
                    rep.count("history_ended/accepted_request_without_defined_meaning")
                    rep.seen("accepted_uninterpretable", "put/%s/%s" % (st["pv"], st["body"][0]))
                    raise Stop
                try:
                    self.model.update(R, ref.parse_query(q), src, now, links=links if op == "put" else None)
                except ref.Unappliable:
                    rep.count("history_ended/accepted_request_without_defined_meaning")
                    rep.seen("accepted_uninterpretable", "%s/%s" % (opclass, st["pv"]))
                    raise Stop
                if op == "put" and UPD_PV[st["pv"]][1] == "valid":
                    self.put_codes.add("2.xx")
                if op == "put" and b"\\" in payload:
                    R.marks.add("link-escapes")
        else:
            if R is not None:
                self.nontrivial = True
                if op != "del":
                    self.model.note_rejected(R, ref.parse_query(q), now, alt_why(opclass, cc))
                if op == "put" and code_str == "4.05":
                    self.put_codes.add("4.05")
            elif cc == 4:
                rep.seen("dead_location_codes", code_str)
            ctx["cands"] = cands
            if cc == 5:
                rep.count("answered_5xx")
        if R is not None and op != "del":
            for dim in write_dims(st["pv"], UPD_PV, st["body"] if op == "put" else None):
                rep.monitor(dim)
                rep.seen("odd_write_outcomes", "%s/%s -> %s" % (opclass, dim, code_str))
            if "base-as-listed" in st["pv"]:
                rep.monitor("update_naming_listed_base")
                if not was_explicit:
                    rep.monitor("update_naming_listed_default_base")
                rep.seen("odd_write_outcomes", "%s/base-as-listed/%s -> %s" % (opclass, "explicit" if was_explicit else "default", code_str))
        await self.sweep(ctx)

    async def do_idle(self, st):
        how = st["how"]
        now = self.loop.time()
        dt = 5.0
        if how[0] == "dt":
            dt = how[1]
        else:
            regs = [r for r in self.model.live.values() if r.lt < 200000]
            if regs:
                if how[1] == "soonest":
                    r = min(regs, key=lambda r: r.expiry(self.grace))
                elif how[1] == "latest-write":
                    r = max(regs, key=lambda r: r.t)
                else:
                    r = sorted(regs, key=lambda r: r.loc)[how[2] % len(regs)]
                off = {"lt-1": -1.0, "lt+1": 1.0, "g-1": self.grace - 1.0, "g+1": self.grace + 1.0}[how[3]]
                target = r.t + r.lt + off
                if target > now:
                    dt = target - now
        await self.asyncio.sleep(dt)
        self.trace.append({"t": round(self.loop.time(), 3), "idle": round(dt, 3)})
        self.sig.append(("idle", how[0] if how[0] == "dt" else how[3]))
        await self.settle()
        await self.sweep({"kind": "idle"})

    def criterion(self, cname, arg):
        regs = sorted(self.model.live.values(), key=lambda r: r.loc)
        entries = [e for r in regs for e in r.res_entries()]
        if cname == "ep-exact":
            return "ep", self.eps[arg % len(self.eps)]
        if cname == "ep-prefix":
            return "ep", "n*"
        if cname == "ep-none":
            return "ep", "nosuch"
        if cname == "d":
            return "d", "x"
        if cname == "rt-exact":
            return "rt", ["temperature-c", "light-lux", "ext", "x"][arg % 4]
        if cname == "rt-second":
            return "rt", "r2"
        if cname == "rt-prefix":
            return "rt", ["temp*", "r*", "l*"][arg % 3]
        if cname == "if":
            return "if", ["sensor", "core.s", "core*"][arg % 3]
        if cname == "extra":
            return "foo", ["bar", "baz", "new", "a"][arg % 4]
        if cname == "extra-prefix":
            return "foo", "b*"
        if cname == "href-target":
            if not entries:
                return "href", "coap://nowhere.example/x"
            return "href", entries[arg % len(entries)][0]
        if cname == "href-loc":
            if not regs:
                return "href", "/nosuch"
            return "href", regs[arg % len(regs)].loc
        if cname.startswith("novalue"):
            # a name that some live registration carries without a value (as parameter or link attribute)
            names = sorted(set(n for r in regs for n in self.ref.valueless_names(r) if self.ref.representable_name(n)))
            if cname == "novalue-if":
                return "if", ["sensor", "core*"][arg % 2]
            name = names[arg % len(names)] if names else ["obs", "flag"][arg % 2]
            return name, ["tr*", "*"][(arg // 4) % 2] if cname == "novalue-prefix" else ["true", "1"][(arg // 4) % 2]
        if cname.startswith("oddvalue-param"):
            vals = sorted(set((k, v) for r in regs for k, vs in r.extras for v in vs if v and self.ref.representable_name(k) and k not in ("page", "count") and any(c in v for c in '\\",; ')))
            vals += sorted(set(("ep", r.key[0]) for r in regs if any(c in r.key[0] for c in '\\",;<')))
            k, v = vals[arg % len(vals)] if vals else ("foo", "x\\")
        elif cname.startswith("oddvalue-link"):
            vals = sorted(set((k, v) for r in regs for l in r.links for k, v in l.params if v and k not in ("anchor", "rt", "if") and ("\\" in v or '"' in v or "link-escapes" in r.marks)))
            k, v = vals[arg % len(vals)] if vals else ("title", "x\\")
        elif cname == "title":
            return "title", ["plain", "pl*", "x*", "say*"][arg % 4]
        else:
            return "href", ["coap://10.0.0.2*", "coap://[2001:db8::*", "coap://other.example/*"][arg % 3]
        if cname.endswith("-prefix"):
            cut = max(1, len(v) - 1 - (arg // 4) % 2)
            return k, v[:cut] + "*"
        if v.endswith("*"):
            return k, v + "*"  # (a value ending in '*' can only be searched as a prefix)
        return k, v

    async def do_lookup(self, st):
        ref, rep = self.ref, self.rep
        path = self.ep_path if st["kind"] == "ep" else self.res_path
        canon = (lambda ls: ref.canon_ep([self.reflink.Link(self.norm_href(l.href), l.params) for l in ls])) if st["kind"] == "ep" else ref.canon_res
        self.model.expire(self.loop.time())
        full = self.model.expected()[st["kind"]]
        if st["q"][0] == "page":
            c = st["q"][1]
            pages = []
            ok = True
            npages = -(-len(full) // c) + 1
            for p in range(npages):
                code, links, raw = await self.get_links(st["peer"], path, ["page=%d" % p, "count=%d" % c], szx=st["szx"])
                if not isinstance(links, list):
                    ok = False
                    pages.append(links)
                    break
                pages.append(canon(links))
            rep.monitor("pagination")
            self.sig.append(("lookup-page", st["kind"], c))
            self.trace.append({"t": round(self.loop.time(), 3), "request": {"GET": "/" + "/".join(path), "query": "page=0..%d&count=%d" % (npages - 1, c)}, "answer": [len(p) if isinstance(p, list) else p for p in pages]})
            if not ok or any(len(p) > c for p in pages) or pages[-1] != [] or sorted(e for p in pages for e in p) != full:
                self.viol("lookup-%s/pagination-mismatch" % st["kind"], "the pages of a paged lookup do not partition the result of the plain lookup into chunks of at most `count`", pages=[p if not isinstance(p, list) else p[:4] for p in pages][:5], want_total=len(full))
            return
        name, pat = self.criterion(st["q"][1], st["q"][2])
        which = 0 if st["kind"] == "ep" else 1
        want = self.model.filtered(name, pat)[which]
        query = ["%s=%s" % (name, pat)]
        two = len(st["q"]) >= 5
        if two:
            name2, pat2 = self.criterion(st["q"][3], st["q"][4])
            if name2 == name:
                two = False
            else:
                also = self.model.filtered(name2, pat2)[which]
                want = [e for e in want if e in also]
                query.append("%s=%s" % (name2, pat2))
                if self.r_order(st):
                    query.reverse()
        code, links, raw = await self.get_links(st["peer"], path, query, szx=st["szx"])
        got = canon(links) if isinstance(links, list) else links
        rep.monitor("lookup_filter")
        if two:
            rep.monitor("lookup_filter_two_criteria")
        names = [x.split("=", 1)[0] for x in query]
        if any(n in ref.valueless_names(r) for r in self.model.live.values() for n in names):
            rep.monitor("filter_on_name_registered_without_value")
        if any("\\" in x or '"' in x for x in query):
            rep.monitor("filter_on_value_needing_escapes")
            if want:
                rep.monitor("filter_on_value_needing_escapes_matching")
        self.sig.append(("lookup-filter", st["kind"], st["q"][1], st["q"][3] if two else None, len(want) > 0, len(want) < len(full)))
        self.trace.append({"t": round(self.loop.time(), 3), "request": {"GET": "/" + "/".join(path), "query": "&".join(query)}, "answer": self.rc.code_str(code) if code else "none", "n": len(got) if isinstance(got, list) else got})
        named = self.attribute_filter(st["kind"], names, got, want) if got != want else None
        if named is not None:
            self.viol(named[0], named[1], query="&".join(query), difference=ref.diff(want, got) if isinstance(got, list) else got, model=self.model_summary())
        elif got != want:
            self.viol("lookup-%s/filter-mismatch/%s" % (st["kind"], (st["q"][1] if not two else "two-criteria")), "a lookup with %s does not list exactly the matching live entries (RFC 9176 6.1)" % ("two search criteria" if two else "one search criterion"), query="&".join(query), difference=ref.diff(want, got) if isinstance(got, list) else got, model=self.model_summary())

    def r_order(self, st):
        # which of the two criteria comes first in the query string (deterministic per step)
        return (st["q"][2] + st["q"][4]) % 2 == 1

    async def run(self):
        await self.setup()
        try:
            for st in self.h["steps"]:
                if await self.settle():
                    await self.sweep({"kind": "idle"})
                op = st["op"]
                if op == "reg":
                    await self.do_reg(st)
                elif op == "sreg":
                    await self.do_sreg(st)
                elif op in ("post", "put", "del"):
                    await self.do_update(st)
                elif op == "idle":
                    await self.do_idle(st)
                else:
                    await self.do_lookup(st)
        except Stop:
            self.stopped = len(self.trace)
        if "4.05" in self.put_codes and "2.xx" in self.put_codes:
            self.viol("put/inconsistently-405", "PUT on a registration resource was answered 4.05 once and 2.xx another time")
        await self.srv.shutdown()
        return True


class Unusable(Exception):
    """The harness cannot work with what it sees (inconclusive)."""


def run_history(h, seed, rep, case, grace, mods):
    scenario = mods["scenario"]
    box = {}

    async def main(loop):
        rn = Runner(loop, rep, case, h, grace, (mods["simnet"], mods["rc"], mods["reflink"], mods["ref"], mods["rdmod"], mods["asyncio"]))
        box["rn"] = rn
        return await rn.run()

    res = scenario.run(main, seed, horizon=5e7)
    rn = box.get("rn")
    if not res.ok:
        if res.horizon:
            rep.inconc("virtual-time horizon")
        elif isinstance(res.error, Unusable):
            rep.inconc("harness: %s" % res.error)
        else:
            rep.inconc("history did not run to completion: hang=%r error=%s" % (res.hang, rep.exception_witness(res.error) if res.error else None))
        return
    if res.loop_exceptions:
        rep.violation("loop-exception/" + str(res.loop_exceptions[0].get("exc_type")), "an exception reached the event loop while the directory was running", {"loop": res.loop_exceptions[:2], "history_tail": rn.trace[-10:]}, case)
    if res.log_errors:
        rep.count("error_log_records", len(res.log_errors))
    rep.case(tuple(rn.sig), nontrivial=rn.nontrivial)
    return rn


def run_shard(shard, rep, only=None):
    from harness import vloop

    vloop.install_time()
    import asyncio
    import aiocoap  # noqa
    import aiocoap.cli.rd as rdmod
    from harness import scenario, simnet, refcodec as rc, reflink, c20_ref as ref

    reflink.selftest()
    ref.selftest()
    oddlinks_selftest(reflink)
    try:
        grace = rdmod.CommonRD.Registration.grace_period
        assert isinstance(grace, (int, float)) and grace >= 1
    except Exception as e:
        rep.inconc("cannot read the grace period: %r" % (e,))
        return
    mods = {"scenario": scenario, "simnet": simnet, "rc": rc, "reflink": reflink, "ref": ref, "rdmod": rdmod, "asyncio": asyncio}
    if shard["index"] == 0 or (only is not None and only[0] == "fixed"):
        for name in sorted(FIXED):
            case = ["fixed", name]
            if only is not None and only != case:
                continue
            rn = run_history({"steps": FIXED[name], "sweep_szx": None}, 7, rep, case, grace, mods)
            if rn is not None and name == "pins":
                rep.sample({"class": "fixed script 'pins'", "trace": rn.trace})
    r = random.Random(shard["seed"])
    for k in range(shard["n"]):
        h = gen(r)
        case = ["hist", k]
        if only is not None and only != case:
            continue
        rn = run_history(h, shard["seed"] * 65537 + k, rep, case, grace, mods)
        if rn is not None and k < 1 and shard["index"] == 0:
            rep.sample({"class": "generated history", "steps": h["steps"], "trace": rn.trace[:40]})
