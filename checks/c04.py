"""C04 — duplicate requests: executed at most once per (endpoint, MID) epoch, re-answered with a
byte-identical copy of the ACK already sent (or nothing), NON duplicates silent, forgotten after
EXCHANGE_LIFETIME. Reference model: seen[(src, mid)] = first arrival."""

import random

ID = "C04"
LEVEL = "exploration"
TECHNIQUE = "runtime monitoring on a virtual-time simulated network: generated duplicate schedules (relative to handler completion, EMPTY_ACK_DELAY, EXCHANGE_LIFETIME) from several raw peers reusing message IDs, incl. adversarial MID choice; oracle = 10-line dedup reference model over handler log and wire log"
LEVEL_TEXT = "Each generated history (2-6 requests x 0-6 copies each, placed in every timing class around the handler, the empty ACK and the 247 s lifetime) is judged by a reference model of (endpoint, MID) epochs: handler invocations per epoch and the datagrams emitted in the instant of each duplicate arrival."
LEVEL_NOTE = "Trusted: harness/simnet.py virtual clock and wire log, refcodec, the epoch model in checks/c04.py. Arrivals exactly at first+EXCHANGE_LIFETIME are not generated (timer order is unspecified)."
RULE = (
    "one case = one history: requests (CON/NON; fast, slow/separate, failing, response-suppressed handlers) from 1-3 raw endpoints (same IP other port, other IP same port) over MIDs {1,2,3}, "
    "each followed by copies in timing classes {same instant, before ACK, after empty ACK, after response, long after, EL-eps, EL+eps, >EL}. Non-trivial = at least one duplicate arrival was judged; "
    "distinct = distinct (per-request type, handler kind, tuple of duplicate timing classes, endpoint relation) shapes"
)
ASSUMPTIONS = ["EXCHANGE_LIFETIME and EMPTY_ACK_DELAY are read from the library's default TransportTuning at run time"]
REQUIRED_MONITORS = {"epoch_once": 300, "dup_con_reanswer": 200, "dup_non_silent": 50, "after_lifetime_new": 30, "same_mid_other_endpoint": 50, "mid_collision": 4, "id_used_before_for_a_non_request": 20, "transport_error_between_copies": 100}

# kept / kept-slow: a resource that keeps its response and returns the same Message object for every request
KINDS = ["fast", "slow", "fail", "noresp", "notfound", "nr-other-class", "nr-other-class-slow", "nr-fail", "kept", "kept", "kept-slow"]
OFFS = {
    "instant": 0.0,
    "pre-ack": 0.0303,
    "post-empty-ack": 0.1507,
    "post-response": 1.5011,
    "minutes": 100.0007,
    "el-minus": -0.5,  # relative to EXCHANGE_LIFETIME
    "el-plus": +0.5,
    "late": 300.0,
}


def plan(tier, seed):
    n = 16
    per = {"quick": 150, "thorough": 6000}[tier]
    return [{"name": "c04-%d" % i, "seed": seed * 1000 + i, "index": i, "of": n, "n": per, "tier": tier} for i in range(n)]


def gen_history(r, EL):
    peers = [("10.0.0.2", 40000), ("10.0.0.2", 40001), ("10.0.0.3", 40000)]
    npeers = r.choice([1, 2, 3])
    nreq = r.randrange(2, 7)
    hist = []  # (t, peer_idx, bytes-spec)
    t = 0.0
    for i in range(nreq):
        p = r.randrange(npeers)
        mid = r.choice([1, 2, 3])
        typ = r.choice([0, 0, 1])
        kind = r.choice(KINDS)
        tok = bytes([0x10 + i])
        t += r.choice([0.0, 0.01, 0.2, 3.0, 50.0, EL + 1.0])
        pre = None
        if r.random() < 0.25:
            # the peer has used this message ID before, for something that is not a request (a ping, a confirmable or
            # non-confirmable response nobody waits for), more than
            # EXCHANGE_LIFETIME before the request: the request is a new one
            mid = 100 + i  # an ID no other request of the history uses: copies of those arrive up to 2 EL late
            pre = {"t": t, "what": r.choice(["ping", "con-response", "non-response", "ping"])}
            t += EL + r.choice([0.5, 50.0, 2 * EL])
        spec = {"peer": p, "mid": mid, "type": typ, "kind": kind, "token": tok.hex(), "t": t, "dups": [], "pre": pre}
        for _ in range(r.choice([0, 1, 1, 2, 3, 6])):
            cls = r.choice(list(OFFS))
            off = OFFS[cls]
            if cls.startswith("el-"):
                off = EL + off
            variant = r.choice(["copy", "copy", "copy", "other-token"])
            spec["dups"].append({"cls": cls, "off": off + r.choice([0.0, 0.00011, 0.00023]), "variant": variant})
        hist.append(spec)
    # transport errors (ICMP) reported for a peer somewhere in the history: they must not make the server forget
    # which (endpoint, MID) pairs it has seen
    if r.random() < 0.35:
        t_end = max(s["t"] for s in hist) + 2.0
        hist[0]["errors"] = [{"t": r.choice([0.05, 0.5, 1.2, r.uniform(0.0, t_end)]), "peer": r.randrange(npeers)} for _ in range(r.choice([1, 2]))]
    return peers[:npeers], hist


def build(spec, variant="copy"):
    from harness import refcodec as rc

    kind = spec["kind"]
    tok = bytes.fromhex(spec["token"])
    if variant == "pre:ping":
        return rc.Msg(rc.CON, 0, spec["mid"], b"", (), b"")
    if variant.startswith("pre:"):
        return rc.Msg(rc.CON if variant == "pre:con-response" else rc.NON, rc.c(2, 5), spec["mid"], b"\x77" + tok, (), b"nobody waits for this")
    if variant == "other-token":
        tok = tok + b"\xee"
    path = b"r"
    # nr-*: the request carries a No-Response option that does NOT cover the class of the response it draws
    payload = {"fast": b"d=0;c=69;p=f", "slow": b"d=1.0;c=69;p=s", "noresp": b"d=0;c=69;p=n", "fail": b"", "notfound": b"", "nr-other-class": b"d=0;c=128;p=e", "nr-other-class-slow": b"d=1.0;c=69;p=t", "nr-fail": b"", "kept": b"d=0;c=69;p=k;x=cached", "kept-slow": b"d=1.0;c=69;p=k;x=cached"}[kind]
    opts = []
    if kind == "fail":
        path = b"boom"
    if kind == "notfound":
        path = b"nonexistent"
    opts.append((11, path))
    if kind == "noresp":
        opts.append((258, b"\x1a"))
    if kind == "nr-other-class":
        opts.append((258, b"\x02"))  # not interested in 2.xx; gets a 4.00
    if kind == "nr-other-class-slow":
        opts.append((258, b"\x18"))  # not interested in 4.xx/5.xx; gets a separate 2.05
    if kind == "nr-fail":
        path = b"boom"
        opts[0] = (11, path)
        opts.append((258, b"\x02"))  # not interested in 2.xx; the handler raises -> 5.00
    code = 2 if kind in ("fast", "slow", "noresp", "nr-other-class", "nr-other-class-slow", "kept", "kept-slow") else 1
    return rc.Msg(spec["type"], code, spec["mid"], tok, tuple(opts), payload)


def run_history(peers, hist, seed, rep, case, EL):
    from harness import scenario, simnet, testsite, refcodec as rc
    import asyncio
    import aiocoap
    import aiocoap.resource as R

    box = {}

    class Boom(R.Resource):
        def __init__(self, hlog, loop):
            super().__init__()
            self.hlog, self.loop = hlog, loop

        async def render_get(self, request):
            self.hlog.append({"ev": "enter", "t": self.loop.time(), "res": "boom", "remote": (request.remote.sockaddr[0], request.remote.sockaddr[1]), "mid": request.mid, "token": bytes(request.token).hex(), "code": int(request.code), "payload": b""})
            raise RuntimeError("boom")

    async def main(loop):
        net = simnet.SimNet(loop)
        hlog = []
        site = testsite.make_site(loop, hlog, {("boom",): Boom(hlog, loop)})
        srv = await simnet.make_context(net, "10.0.0.1", 5683, site)
        S = simnet.addr("10.0.0.1", 5683)

        def on_msg(peer, src, m, raw):
            if m is not None and m.type == rc.CON and rc.is_response(m.code):
                peer.send(src, rc.Msg(rc.ACK, 0, m.mid, b"", (), b""))

        raws = [simnet.RawPeer(net, ip, port, on_msg) for ip, port in peers]
        events = []
        for spec in hist:
            events.append((spec["t"], spec, "copy", True))
            if spec.get("pre"):
                events.append((spec["pre"]["t"], spec, "pre:" + spec["pre"]["what"], False))
            for d in spec["dups"]:
                events.append((spec["t"] + d["off"], spec, d["variant"], False))
        events.sort(key=lambda e: e[0])
        for er in hist[0].get("errors", []):
            net.inject_error(S, raws[er["peer"]].addr, 111, delay=er["t"])
        t_now = 0.0
        for t, spec, variant, first in events:
            if t > t_now:
                await asyncio.sleep(t - t_now)
                t_now = t
            raws[spec["peer"]].send(S, build(spec, variant))
        await asyncio.sleep(5.0)
        box.update(net=net, hlog=hlog, S=S)
        await srv.shutdown()
        return True

    res = scenario.run(main, seed, horizon=1e5)
    if not res.ok:
        if res.horizon:
            rep.inconc("horizon")
        else:
            rep.violation("scenario-failed", "history did not run to completion: hang=%r error=%r" % (res.hang, res.error), {"hist": repr(hist)[:800]}, case)
        return
    judge(box, hist, peers, res, rep, case, EL)


def judge(box, hist, peers, res, rep, case, EL):
    from harness import refcodec as rc

    net, hlog, S = box["net"], box["hlog"], box["S"]
    wit = lambda **kw: dict(hist=repr(hist)[:1200], wire=[e for e in net.dump(60)], handler=[(h["ev"], round(h["t"], 4), h["remote"], h["mid"], h["token"]) for h in hlog][:40], **kw)
    # arrivals at the server in delivery order
    seen = {}  # (src, mid) -> first arrival of current epoch
    epochs = []  # dict(key, t0, type, arrivals=[...])
    cur = {}
    shape = []
    judged_dups = 0
    sent_by_server = [e for e in net.log if e.kind == "send" and e.src == S]
    for e in net.log:
        if e.kind != "deliver" or e.dst != S or e.msg is None or not rc.is_request(e.msg.code) or e.msg.type not in (rc.CON, rc.NON):
            continue
        key = (e.src, e.msg.mid)
        first = seen.get(key)
        if first is not None and abs((e.t - first) - EL) < 1e-6:
            # arrival in the very instant the identifier expires: either order is legal, and every later
            # classification for this key depends on it -> do not judge this history
            rep.count("history_abandoned_ambiguous_arrival_at_lifetime")
            return
        if first is None or e.t - first > EL:
            if first is not None:
                rep.monitor("after_lifetime_new")
            if any(x.kind == "deliver" and x.dst == S and x.src == e.src and x.msg is not None and x.msg.mid == e.msg.mid and not rc.is_request(x.msg.code) and x.seq < e.seq for x in net.log):
                rep.monitor("id_used_before_for_a_non_request")
            seen[key] = e.t
            ep = {"key": key, "t0": e.t, "type": e.msg.type, "token": e.msg.token, "dups": []}
            epochs.append(ep)
            cur[key] = ep
            if any(k[1] == key[1] and k[0] != key[0] and seen[k] is not None and e.t - seen[k] <= EL for k in seen if k != key):
                rep.monitor("same_mid_other_endpoint")
            continue
        ep = cur[key]
        ep["dups"].append(e)
        if e.msg.type != ep["type"]:
            rep.count("cross_type_same_id_arrival")  # not a "copy" in the statement's sense: recorded, not judged
            continue
        # ---- duplicate arrival: what did the server emit synchronously while processing it? ----
        now = [s for s in sent_by_server if s.cause == e.seq and s.msg is not None]
        same_mid = [s for s in now if s.msg.mid == e.msg.mid and s.dst == e.src]
        judged_dups += 1
        if ep["type"] == rc.CON:
            rep.monitor("dup_con_reanswer")
            prev = [s for s in sent_by_server if s.seq < e.seq and s.dst == e.src and s.msg is not None and s.msg.mid == e.msg.mid and s.msg.type == rc.ACK and s.t >= ep["t0"] - 1e-9]
            if not prev:
                if now:
                    rep.violation("dup-con/output-before-any-ack", "a duplicate CON arriving before any acknowledgement existed produced output", wit(at=e.t, emitted=[s.brief() for s in now]), case)
            else:
                ack = prev[0]
                if len(same_mid) != 1:
                    rep.violation("dup-con/%s" % ("not-reanswered" if not same_mid else "reanswered-multiple-times"), "a duplicate CON was answered with %d datagram(s) instead of one repetition of the acknowledgement already sent" % len(same_mid), wit(at=e.t, ack=ack.brief(), emitted=[s.brief() for s in same_mid]), case)
                elif same_mid[0].data != ack.data:
                    rep.violation("dup-con/reanswer-differs", "the repetition sent for a duplicate CON is not byte-identical to the acknowledgement already sent", wit(at=e.t, ack=ack.brief(), emitted=same_mid[0].brief()), case)
                other = [s for s in now if s not in same_mid]
                if other:
                    rep.violation("dup-con/extra-output", "a duplicate CON produced a further datagram besides the repeated acknowledgement", wit(at=e.t, emitted=[s.brief() for s in other]), case)
        else:
            rep.monitor("dup_non_silent")
            if now:
                rep.violation("dup-non/output", "a duplicate NON request produced output", wit(at=e.t, emitted=[s.brief() for s in now]), case)
    # ---- handler invocations per epoch ----
    for i, ep in enumerate(epochs):
        rep.monitor("epoch_once")
        nxt = min([x["t0"] for x in epochs if x["key"] == ep["key"] and x["t0"] > ep["t0"]] or [float("inf")])
        n = [h for h in hlog if h["ev"] == "enter" and (h["remote"], h["mid"]) == ep["key"] and ep["t0"] - 1e-9 <= h["t"] < nxt - 1e-9]
        expected_invocations = 1
        # requests to a nonexistent path never reach a handler
        if n == [] and is_notfound(ep, hist, peers):
            expected_invocations = 0
        if len(n) > 1:
            rep.violation("executed-twice", "a request identified by (endpoint, MID) was passed to the application %d times within EXCHANGE_LIFETIME" % len(n), wit(key=repr(ep["key"]), t0=ep["t0"]), case)
        elif len(n) < expected_invocations:
            rep.violation("new-request-not-executed", "a request with a fresh (endpoint, MID) - or one whose EXCHANGE_LIFETIME had passed - was not passed to the application", wit(key=repr(ep["key"]), t0=ep["t0"]), case)
    if res.loop_exceptions:
        rep.violation("loop-exception/" + str(res.loop_exceptions[0].get("exc_type")), "an exception reached the event loop while duplicates were processed", wit(loop=res.loop_exceptions[:2]), case)
    shape = tuple((s["type"], s["kind"], tuple(sorted(d["cls"] + ("*" if d["variant"] != "copy" else "") for d in s["dups"])), s["peer"], s["mid"]) for s in hist) + (len(hist[0].get("errors", [])),)
    if hist[0].get("errors"):
        rep.monitor("transport_error_between_copies")
    rep.case(shape, nontrivial=judged_dups > 0)


def is_notfound(ep, hist, peers):
    from harness import simnet

    for s in hist:
        if s["kind"] == "notfound" and s["mid"] == ep["key"][1] and simnet.addr(*peers[s["peer"]]) == ep["key"][0]:
            return True
    return False


def run_collision(variant, seed, rep, case):
    """Adversarial MID choice: the peer uses the server's own next message ID for its request, so the
    separate response's fresh MID equals the request's MID."""
    from harness import scenario, simnet, testsite, refcodec as rc
    import asyncio

    box = {}

    async def main(loop):
        net = simnet.SimNet(loop)
        hlog = []
        srv = await simnet.make_context(net, "10.0.0.1", 5683, testsite.make_site(loop, hlog))
        S = simnet.addr("10.0.0.1", 5683)
        learned = []

        def on_msg(peer, src, m, raw):
            if m is None:
                return
            if rc.is_response(m.code) and m.type in (rc.CON, rc.NON):
                learned.append(m.mid)
                if m.type == rc.CON:
                    peer.send(src, rc.Msg(rc.ACK, 0, m.mid, b"", (), b""))

        p = simnet.RawPeer(net, "10.0.0.2", 40000, on_msg)
        typ = rc.CON if variant == "con" else rc.NON
        p.send(S, rc.Msg(typ, 2, 0x0101, b"\x01", ((11, b"r"),), b"d=1.0;c=69;p=first"))
        await asyncio.sleep(3)
        if not learned:
            box["inconc"] = "no separate response observed to learn the server's MID from"
            return True
        nxt = (learned[-1] + 1) & 0xFFFF
        req = rc.Msg(typ, 2, nxt, b"\x02", ((11, b"r"),), b"d=1.0;c=69;p=second")
        p.send(S, req)
        await asyncio.sleep(3)  # empty ACK at +0.1, separate response (MID == nxt) at +1.0
        t_dup = loop.time()
        p.send(S, req)  # duplicate after everything was sent
        await asyncio.sleep(3)
        box.update(net=net, hlog=hlog, S=S, nxt=nxt, t_dup=t_dup + 0.001, P=p.addr)
        await srv.shutdown()
        return True

    res = scenario.run(main, seed)
    if box.get("inconc"):
        rep.inconc(box["inconc"])
        return
    if not res.ok:
        rep.violation("mid-collision/scenario-failed", "collision scenario did not complete: hang=%r error=%r" % (res.hang, res.error), {}, case)
        return
    net, S, nxt, t_dup = box["net"], box["S"], box["nxt"], box["t_dup"]
    rep.monitor("mid_collision")
    collided = [e for e in net.log if e.kind == "send" and e.src == S and e.msg is not None and e.msg.mid == nxt and rc.is_response(e.msg.code) and e.msg.type in (rc.CON, rc.NON)]
    rep.count("mid_collision_achieved" if collided else "mid_collision_not_achieved")
    wit = lambda **kw: dict(variant=variant, wire=net.dump(40), loop=res.loop_exceptions[:2], **kw)
    dupdel = [e for e in net.log if e.kind == "deliver" and e.dst == S and abs(e.t - t_dup) < 1e-9]
    now = [e for e in net.log if e.kind == "send" and e.src == S and dupdel and e.cause == dupdel[-1].seq and e.msg is not None]
    if variant == "con":
        acks = [e for e in net.log if e.kind == "send" and e.src == S and e.t < t_dup and e.msg is not None and e.msg.mid == nxt and e.msg.type == rc.ACK]
        same = [e for e in now if e.msg.mid == nxt]
        if acks and (len(same) != 1 or same[0].data != acks[0].data):
            rep.violation("mid-collision/dup-con-not-reanswered-with-its-ack", "when the server's fresh message ID for the separate response equals the request's message ID, a later duplicate of the CON request is not answered with a repetition of its empty ACK", wit(emitted=[e.brief() for e in same]), case)
    else:
        out = [e for e in now if e.msg.mid == nxt or e.msg.token == b"\x02"]
        if out:
            rep.violation("mid-collision/dup-non-produces-output", "when the server's fresh message ID for the response equals the NON request's message ID, a duplicate of the NON request makes the server send output", wit(emitted=[e.brief() for e in out]), case)
    if res.loop_exceptions:
        rep.violation("mid-collision/loop-exception/" + str(res.loop_exceptions[0].get("exc_type")), "duplicate after a message-ID collision raises in the event loop", wit(), case)
    n = [h for h in box["hlog"] if h["ev"] == "enter" and h["mid"] == nxt]
    if len(n) != 1:
        rep.violation("mid-collision/executed-%d-times" % len(n), "request with colliding MID executed %d times" % len(n), wit(), case)
    rep.case(("collision", variant, bool(collided)), nontrivial=True)


def run_shard(shard, rep, only=None):
    from harness import vloop

    vloop.install_time()
    import aiocoap  # noqa
    from aiocoap.numbers.constants import TransportTuning

    EL = TransportTuning().EXCHANGE_LIFETIME
    r = random.Random(shard["seed"])
    for i in range(shard["n"]):
        peers, hist = gen_history(r, EL)
        case = ["hist", i]
        if only is not None and only != case:
            continue
        run_history(peers, hist, shard["seed"] * 65537 + i, rep, case, EL)
        if i < 1 and shard["index"] == 0:
            rep.sample({"class": "history", "peers": peers, "requests": hist})
    for j, variant in enumerate(["con", "non"]):
        case = ["collision", variant]
        if only is not None and only != case:
            continue
        if shard["index"] % 2 == j or shard["of"] < 2:
            run_collision(variant, shard["seed"], rep, case)
