"""C13 — OSCORE nonces are never reused across restarts, crashes and exhaustion.

The real FilesystemSecurityContext runs protect/unprotect histories on scratch directories while
every file-system call oscore.py makes is interposed (harness.oscore_c13). A history is first
recorded, then repeated with the process "dying" after every single file-system effect and
between any two operations (in-process unwinding for volume, a real child process killed with
os._exit on a subset), and with clean stops; the context is then reloaded and used again, twice.
Oracles: global set of partial IVs parsed from every protected message per directory;
persisted bound above every issued number (checked after every protect); sequence.json absent
or complete after every effect; strict increase within a lifetime; refusal at 2^40-1; replays
of previously accepted requests after every reload."""

import json
import os
import random
import shutil
import subprocess
import sys
import tempfile

ID = "C13"
LEVEL = "fault_enumeration"
INTERPRETER = "system"
SHIMS = True
TECHNIQUE = (
    "fault enumeration at the file-system boundary: oscore.py's os/tempfile/io/open calls are interposed, a recorded "
    "history is re-run with a crash after every individual effect and at every operation boundary (in-process unwinding; "
    "a real child process dying by os._exit on a subset and compared), and with individual file-system operations (single ones and stretches) failing with OSError while the process lives on, followed by reload/continue/second stop/reload; "
    "oracles over partial IVs parsed independently from the serialised messages and over sequence.json read independently"
)
LEVEL_TEXT = (
    "Every crash point (after each of mkstemp / write / fsync / replace / unlink and between any two operations, including "
    "inside _destroy) of each listed history was injected and followed by two further lifetimes; histories cross the "
    "persistence chunk boundaries 10/30/70/150 (thorough: 310/630 and one run through the 10000 limit), small chunk "
    "parameters, persisted / unknown / absent / exhausted start states, plus random multi-lifetime chains. Power loss "
    "(unsynced data lost) is not modelled. Fault points: every file-system operation of each history made to fail (alone and as the first of three) with the process "
    "running on to the end of the history and then dying or stopping cleanly; random chains mix failing stretches with crash points."
)
LEVEL_NOTE = (
    "Trusted: harness/oscore_c13.py (interposition, option parser), harness/refcodec.py, the cbor2/filelock stand-ins. "
    "The in-process crash model is validated each run against real process death (directory contents and API records must agree)."
)
RULE = (
    "a case = (first-lifetime history, crash point or clean stop, second stop) with two reloads; non-trivial always. "
    "distinct = distinct (history name, crash-point kind, effect name or operation kind at the crash point, ordinal class of "
    "the crash point, second stop kind) signatures"
)
ASSUMPTIONS = [
    "a dying process loses user-space buffers and keeps everything already handed to the kernel; its flock is released, the lock file stays",
    "clean stop = FilesystemSecurityContext._destroy(), directly or through __del__ when the last reference goes away",
    "a failing file-system operation raises OSError before anything changes on disk (ENOSPC / EMFILE / EROFS kind of failure); a clean stop that runs into one counts as an unclean stop",
    "the peer never reuses its own sequence numbers and sends the Echo-bearing request with a number above all earlier ones",
    "ContextUnavailable (the documented exception) or any other exception without a returned message counts as refusal; a returned message with partial IV >= 2^40-1 does not",
]
REQUIRED_MONITORS = {
    "crash_points": 300,
    "piv_unique": 5000,
    "request_nonce_once": 1000,
    "disk_bound": 5000,
    "atomic_json": 1000,
    "strictly_increasing": 5000,
    "exhaustion_refused": 20,
    "replay_after_crash": 100,
    "replay_after_clean": 50,
    "reload": 600,
    "mode_b_compared": 16,
    "chunk_boundaries": 50,
    "fault_points": 300,
    "fs_faults_injected": 300,
}
EXHAUSTIVE = {
    "crash_points": "for every listed first-lifetime history: a crash after each individual file-system effect (incl. those of _destroy), at every operation boundary, and the two clean stops",
    "second_stop": "quick: 4 second-lifetime stops per first crash point; thorough: every crash point of the second lifetime for the histories marked small",
}
WORKER_TIMEOUT = {"quick": 600, "thorough": 7200}
NSHARDS = 16
MAX = 2**40 - 1


def plan(tier, seed):
    return [{"name": "c13-%d" % i, "seed": seed * 1000 + i, "index": i, "of": NSHARDS, "tier": tier} for i in range(NSHARDS)]


# ------------------------------------------------------------------------------ histories
def P(n):
    return [["P"]] * n


def specs(tier):
    win = {"index": 5, "bitfield": 0b1011}
    out = [
        {"name": "p12", "ops": P(12)},
        {"name": "p32", "ops": P(32)},
        {"name": "p72", "ops": P(72)},
        {"name": "p152", "ops": P(152)},
        {"name": "mixed", "peer": 4, "ops": [["R", 0, 1], ["P"], ["P"], ["R", 1, 2]] + P(9) + [["R", 3, 1], ["R", 1, 1], ["R", 2, 3]] + P(3), "small": True},
        {"name": "persisted", "start": {"next-to-send": 100, "received": win}, "peer": 41, "ops": [["R", 6, 1]] + P(11) + [["R", 9, 1], ["R", 40, 2]], "small": True},
        {"name": "unknown", "start": {"next-to-send": 57, "received": "unknown"}, "peer": 10, "ops": [["E"]] + P(12) + [["R", "fresh", 1]], "small": True},
        {"name": "nullwindow", "start": {"next-to-send": 20, "received": {"index": None, "bitfield": None}}, "peer": 10, "ops": [["R", "fresh", 1], ["E"]] + P(3) + [["R", "fresh", 2]], "small": True},
        {"name": "chunk1-4", "chunk": [1, 4], "ops": P(20) + [["R", 0, 1]] + P(5), "peer": 1},
        {"name": "chunk3-3", "chunk": [3, 3], "ops": P(14), "small": True},
        {"name": "chunk2-16", "chunk": [2, 16], "ops": [["R", 0, 2]] + P(40), "peer": 1},
        {"name": "chunk1-1", "chunk": [1, 1], "ops": P(6) + [["R", 0, 2]] + P(2), "peer": 1, "small": True},
        {"name": "w1", "window": 1, "peer": 3, "ops": [["R", 0, 1], ["R", 2, 1], ["R", 1, 1]] + P(11), "small": True},
    ]
    for off, n in ((12, 15), (3, 6), (1, 3), (0, 3), (-5, 2)):
        out.append({"name": "exhaust-%d" % off, "start": {"next-to-send": MAX - off, "received": {"index": 0, "bitfield": 0}}, "ops": P(n) + [["R", 0, 2]] + P(1), "peer": 1, "exhaust": True, "small": True})
    out.append({"name": "exhaust-3-chunk1", "chunk": [1, 1], "start": {"next-to-send": MAX - 3, "received": "unknown"}, "ops": P(5), "exhaust": True, "small": True})
    if tier == "thorough":
        out += [
            {"name": "p312", "ops": P(312)},
            {"name": "p640", "ops": P(640)},
            {"name": "chunk1-4-long", "chunk": [1, 4], "ops": P(60)},
            {"name": "chunk7-50", "chunk": [7, 50], "ops": P(130)},
            {"name": "w64", "window": 64, "peer": 200, "ops": [["R", n, 1] for n in (0, 5, 70, 69, 5, 133, 134, 70)] + P(11)},
        ]
    return out


def continuation(spec, level):
    chunk0 = (spec.get("chunk") or [10, 10000])[0]
    if spec.get("exhaust"):
        return P(3)
    if level == 2:
        return P(chunk0 + 2) + [["R", "fresh", 1], ["R", "fresh", 2]] + P(2)
    return P(3) + [["R", "fresh", 1]]


def pack(ops):
    out = []
    for op in ops:
        if out and out[-1][0] == op:
            out[-1][1] += 1
        else:
            out.append([op, 1])
    return out


def unpack(packed):
    return [op for op, n in packed for _ in range(n)]


# ------------------------------------------------------------------------------ oracle
class _FaultTagging:
    """Reporter front: violations seen once a file-system operation was made to fail (instead of the process dying)
    are keyed apart from those that need nothing but crashes."""

    def __init__(self, rep, orc):
        self._rep = rep
        self._orc = orc

    def __getattr__(self, name):
        return getattr(self._rep, name)

    def violation(self, key, *a, **kw):
        if self._orc.faulted or self._orc.h.GATE.failed:
            key += "/after-failed-store"
        return self._rep.violation(key, *a, **kw)


class Oracle:
    """All oracles for one context directory across its lifetimes."""

    def __init__(self, h, rep, path, case):
        self.h = h
        self.rep = _FaultTagging(rep, self)
        self.path = path
        self.case = case
        self.pivs = {}
        self.reused = {}  # request number -> (lifetime, how) of the message protected under that request's nonce
        self.life = 0
        self.life_pivs = []
        self.prev_stop = None
        self.acc = []  # (n, echo) accepted in finished or current lifetimes
        self.accepted_before = []  # .. in previous lifetimes only
        self.records = []
        self.seq_seen = False
        self.json_invalid = False
        self.notes = []
        self.boundaries = 0
        self.last_disk = None
        self.accepted_lifetime1 = []
        self.faulted = False  # some file-system operation of an earlier or this lifetime was made to fail

    # -- lifetime bookkeeping ----------------------------------------------------
    def begin(self):
        self.life += 1
        self.life_pivs = []
        self.records = []
        self.notes = []
        self.accepted_before = list(self.acc)
        st, d = self.h.read_sequence(self.path)
        self.seq_seen = self.seq_seen or st != "absent"
        self.last_disk = d["next-to-send"] if st == "ok" else None

    def end(self, stop):
        if self.life == 1:
            self.accepted_lifetime1 = list(self.acc)
        self.prev_stop = stop

    def witness(self, **kw):
        w = {"lifetime": self.life, "previous_stop": self.prev_stop, "issued_this_lifetime": self.life_pivs[-8:], "sequence_json": self.h.read_sequence(self.path), "case": self.case}
        w.update(kw)
        return w

    # -- Recorder interface ---------------------------------------------------------
    def issued(self, piv, how, data):
        rep = self.rep
        self.records.append(["issued", piv, how])
        if piv is None:
            rep.count("responses_reusing_request_nonce")
            # the nonce of the request (peer's ID, its sequence number) under OUR sender key: usable for one
            # message only, over all lifetimes of this context directory
            if "@" in how:
                n = int(how.rsplit("@", 1)[1])
                rep.monitor("request_nonce_once")
                if n in self.reused:
                    rep.violation("nonce/request-nonce-reused/" + how.rsplit("@", 1)[0] + ("/same-lifetime" if self.reused[n][0] == self.life else "/after-" + str(self.prev_stop)), "a second message was protected under the nonce of the same request (no Partial IV of its own): an AEAD nonce issued twice under the sender key", self.witness(request_number=n, first=self.reused[n], second=(self.life, how)), self.case)
                else:
                    self.reused[n] = (self.life, how)
            return
        rep.monitor("piv_unique")
        if piv in self.pivs:
            first = self.pivs[piv]
            ctx = "same-lifetime" if first == self.life else ("after-" + str(self.prev_stop))
            rep.violation("nonce/sequence-number-reissued/" + ctx, "a sender sequence number (partial IV) was issued a second time for the same context directory", self.witness(piv=piv, first_issued_in_lifetime=first, message=data.hex()), self.case)
        else:
            self.pivs[piv] = self.life
        rep.monitor("strictly_increasing")
        if self.life_pivs and piv <= self.life_pivs[-1]:
            rep.violation("order/not-strictly-increasing", "partial IVs within one lifetime do not strictly increase", self.witness(piv=piv), self.case)
        self.life_pivs.append(piv)
        if piv >= MAX:
            rep.violation("exhaustion/issued-at-or-beyond-limit", "a message was protected with sequence number >= 2^40-1 instead of being refused", self.witness(piv=piv), self.case)
        # (ii) the bound on disk is above every number handed out
        rep.monitor("disk_bound")
        st, d = self.h.read_sequence(self.path)
        if st != "ok":
            rep.violation("persist/bound-not-above-issued/" + ("no-sequence-json" if st == "absent" else "invalid-sequence-json"), "protect() returned a message while sequence.json holds no usable bound", self.witness(piv=piv), self.case)
        else:
            if d["next-to-send"] <= piv:
                rep.violation("persist/bound-not-above-issued", "protect() returned sequence number s while sequence.json says next-to-send <= s", self.witness(piv=piv, next_to_send=d["next-to-send"]), self.case)
            if self.last_disk is not None and d["next-to-send"] != self.last_disk:
                self.boundaries += 1
                rep.monitor("chunk_boundaries")
                rep.seen("chunk_step", min(d["next-to-send"] - self.last_disk, 10**9))
            self.last_disk = d["next-to-send"]

    def refused(self, how, exc):
        self.records.append(["refused", how, type(exc).__name__])
        self.rep.monitor("exhaustion_refused")
        self.rep.seen("refusal_type", type(exc).__name__)

    def protect_raised(self, how, exc):
        self.records.append(["protect_raised", how, type(exc).__name__])
        self.rep.seen("protect_exception", "%s/%s" % (how, type(exc).__name__))
        self.rep.count("protect_raised_other_than_ContextUnavailable")

    def accepted(self, n, echo):
        self.records.append(["accepted", n, echo is not None])
        self.acc.append((n, echo))

    def rejected(self, n, echo, exc):
        self.records.append(["rejected", n, echo is not None, type(exc).__name__])

    def note(self, what):
        self.records.append(["note", what])
        self.notes.append(what)
        self.rep.count("note_" + what)

    # -- (iii) after every effect ------------------------------------------------------
    def observer(self, k, name, detail):
        rep = self.rep
        rep.monitor("atomic_json")
        rep.seen("effect", "%s %s" % (name, detail if not detail.endswith("bytes") else "n bytes"))
        st, d = self.h.read_sequence(self.path)
        if st == "invalid":
            self.json_invalid = True
            rep.violation("atomicity/sequence-json-incomplete-after/" + name, "sequence.json is neither absent nor complete JSON after a file-system effect", self.witness(effect=[k, name, detail], content=d), self.case)
        elif st == "absent" and self.seq_seen:
            rep.violation("atomicity/sequence-json-vanished-after/" + name, "sequence.json existed before and is absent after a file-system effect", self.witness(effect=[k, name, detail]), self.case)
        else:
            self.seq_seen = self.seq_seen or st == "ok"


# ------------------------------------------------------------------------------ scenario runner
class Runner:
    def __init__(self, rep, root):
        from harness import oscore_c13 as h

        self.h = h
        self.rep = rep
        self.root = root
        self.gate = h.install()
        self.peer = h.Peer()
        self.ndirs = 0
        import filelock

        self.LockTimeout = filelock.Timeout
        prev_hook = sys.unraisablehook

        def unraisable(u):
            # __del__ (the clean stop of a context whose last reference went away) running into an injected fault
            if isinstance(u.exc_value, OSError) and "(injected)" in str(u.exc_value):
                rep.count("injected_fault_in_del")
            else:
                prev_hook(u)

        sys.unraisablehook = unraisable

    def new_dir(self, spec):
        self.ndirs += 1
        d = os.path.join(self.root, "d%d" % self.ndirs)
        return self.h.make_dir(d, spec.get("window"), spec.get("start"))

    # -- one lifetime ------------------------------------------------------------
    def lifetime(self, orc, spec, ops, st, stop, info=None, faults=()):
        """Run one lifetime ending with `stop`. Returns the way it ended: 'crash' | 'clean' |
        None if the context could not be loaded."""
        h = self.h
        rep = self.rep
        g = self.gate
        chunk = tuple(spec["chunk"]) if spec.get("chunk") else None
        g.reset(crash_after=stop[1] if stop[0] == "eff" else None, fail_at=faults)
        g.observer = orc.observer
        orc.begin()
        try:
            life = h.Lifetime(orc.path, self.peer, orc, chunk)
        except self.LockTimeout:
            rep.inconc("reload refused: lock still held although the previous lifetime's lock was released like the OS would")
            return None
        except Exception as e:  # noqa: BLE001
            import gc

            gc.collect()  # the half-constructed object's FileLock is released as a dying process' would be
            if orc.json_invalid or h.read_sequence(orc.path)[0] == "invalid":
                rep.count("reload_failed_on_invalid_sequence_json")
                rep.seen("reload_failure", type(e).__name__)
            else:
                rep.inconc("reloading the context directory failed with %s: %s (sequence.json: %r)" % (type(e).__name__, e, h.read_sequence(orc.path)))
            return None
        rep.monitor("reload")
        ended = None
        try:
            if orc.life > 1:
                self.replay_old(life, orc, "before-echo")
                if life.initialised() is False:
                    rep.count("reload_window_uninitialised_after_" + str(orc.prev_stop))
                    life.op(["E"], st)
                    if "echo-exchange-ok" in orc.notes:
                        self.replay_old(life, orc, "after-echo")
                elif orc.prev_stop == "clean":
                    rep.count("reload_window_initialised_after_clean")
            done = h.run_ops(life, ops, st, stop_after=stop[1] if stop[0] == "op" else None)
            if info is not None:
                info["effects_in_ops"] = g.n
                info["ops_done"] = done
            if stop[0] == "clean":
                life.destroy()
                ended = "clean"
            elif stop[0] == "del":
                life.drop()
                if os.path.exists(os.path.join(orc.path, "lock")):
                    rep.count("dropping_last_reference_did_not_destroy")
                ended = "clean"
            elif stop[0] == "destroy-eff":
                g.crash_after = g.n + stop[1]
                life.destroy()
                rep.count("crash_point_in_destroy_not_reached")
                ended = "clean"
            else:
                if stop[0] == "eff":
                    rep.count("crash_point_not_reached")
                ended = "crash"
            if info is not None:
                info["effects_total"] = g.n
                info["trace"] = list(g.trace)
        except h.Crash:
            ended = "crash"
            rep.seen("crashed_after_effect", "%s" % (g.trace[-1][0] if g.trace else "?",))
        except OSError:
            # a clean stop (final or as an operation of the history) ran into an injected fault: the process ends
            # without having shut the context down
            if not g.failed:
                raise
            rep.count("clean_stop_failed_on_injected_fault")
            ended = "crash"
        finally:
            if ended != "clean":
                if not life.abandon():
                    rep.inconc("could not neutralise the abandoned context object (no `lockfile` attribute)")
            g.dead = False
            g.crash_after = None
            if g.failed:
                rep.monitor("fs_faults_injected", g.failed)
                orc.faulted = True
            g.fail_at = set()
        if g.bypassed:
            rep.inconc("oscore.py modified the file system through calls that are not interposed: %s" % sorted(g.bypassed)[:4])
            del g.bypassed[:]
        orc.end(ended)
        return ended

    def replay_old(self, life, orc, phase):
        """(v) requests accepted in earlier lifetimes must not be accepted again."""
        h = self.h
        rep = self.rep
        old = orc.accepted_before
        if not old:
            return
        idx = range(len(old)) if len(old) <= 12 else sorted({0, 1, len(old) - 1, len(old) - 2, len(old) // 2, len(old) // 3})
        mon = "replay_after_crash" if orc.prev_stop == "crash" else "replay_after_clean"
        for i in idx:
            n, echo = old[i]
            wire, _ = self.peer.request(n, echo)
            rep.monitor(mon)
            try:
                life.ctx.unprotect(h.incoming(wire))
            except h.oscore.ReplayErrorWithEcho as e:
                rep.seen("old_request_rejected_with", "%s/%s/%s" % (orc.prev_stop, phase, type(e).__name__))
                # the server answers with a protected 4.01 carrying the Echo value: that message is issued under
                # some nonce, too (it goes through the same records as every other protected message)
                try:
                    resp = e.to_message()
                except h.oscore.ContextUnavailable as e2:
                    orc.refused("echo-4.01", e2)
                    continue
                except Exception as e2:  # noqa: BLE001
                    orc.protect_raised("echo-4.01", e2)
                    continue
                life._issued("echo-4.01", resp, n)
                continue
            except h.oscore.ProtectionInvalid as e:
                rep.seen("old_request_rejected_with", "%s/%s/%s" % (orc.prev_stop, phase, type(e).__name__))
                continue
            except Exception as e:  # noqa: BLE001
                rep.seen("old_request_other_exception", type(e).__name__)
                continue
            orc.rep.violation(
                "replay-after-%s/accepted-%s" % (orc.prev_stop, phase),
                "a request accepted in an earlier lifetime was accepted again after reload (%s stop, %s)" % (orc.prev_stop, phase),
                orc.witness(request_number=n, had_echo=echo is not None, accepted_earlier=[a for a, _ in old][-12:]),
                orc.case,
            )

    # -- a complete case ---------------------------------------------------------
    def run_case(self, case, info=None, keep_dir=False):
        spec = case["spec"]
        ops1 = unpack(spec["ops"])
        d = self.new_dir(spec)
        orc = Oracle(self.h, self.rep, d, case)
        st = {"peer_next": spec.get("peer", 0)}
        try:
            e1 = self.lifetime(orc, spec, ops1, st, case["cp"], info, faults=case.get("faults", ()))
            if info is not None:
                info["records"] = list(orc.records)
                info["snapshot"] = self.h.snapshot(d)
                info["st"] = dict(st)
            self.after_first(orc, spec, st, case, e1)
        finally:
            if not keep_dir:
                shutil.rmtree(d, ignore_errors=True)
        return orc

    def after_first(self, orc, spec, st, case, e1):
        if e1 is None:
            return
        for level, stop in ((2, case.get("cp2") or ["clean"]), (3, ["clean"])):
            ops = case.get("ops%d" % level)
            ops = unpack(ops) if ops is not None else continuation(spec, level)
            e = self.lifetime(orc, spec, ops, st, stop)
            if e is None:
                return

    def run_chain(self, case):
        """Random multi-lifetime chain: case['lives'] = [[packed ops, stop], ...]."""
        spec = case["spec"]
        d = self.new_dir(spec)
        orc = Oracle(self.h, self.rep, d, case)
        st = {"peer_next": spec.get("peer", 0)}
        try:
            for packed, stop, *faults in case["lives"]:
                if self.lifetime(orc, spec, unpack(packed), st, stop, faults=faults[0] if faults else ()) is None:
                    return
            self.lifetime(orc, spec, P(2), st, ["clean"])
        finally:
            shutil.rmtree(d, ignore_errors=True)

    # -- mode B --------------------------------------------------------------------
    def mode_b(self, case):
        """The same first lifetime in a real child process that dies by os._exit at the crash
        point; directory contents and API records must equal the in-process run; then the
        oracles continue on the directory the dead process left."""
        h = self.h
        rep = self.rep
        spec = case["spec"]
        info = {}
        # in-process twin (its own oracle instance reports as usual)
        orcA = self.run_case(case, info=info)
        # child
        d = self.new_dir(spec)
        log = d + ".log"
        specfile = d + ".spec.json"
        try:
            with open(specfile, "w") as f:
                json.dump({"dir": d, "ops": unpack(spec["ops"]), "chunk": spec.get("chunk"), "st": {"peer_next": spec.get("peer", 0)}, "crash": case["cp"], "log": log}, f)
            env = dict(os.environ)
            try:
                p = subprocess.run([sys.executable, "-m", "harness.oscore_c13child", specfile], cwd=os.path.dirname(os.path.dirname(os.path.abspath(__file__))), env=env, stdout=subprocess.PIPE, stderr=subprocess.PIPE, timeout=120)
            except subprocess.TimeoutExpired:
                rep.inconc("mode B child timed out")
                return
            if p.returncode not in (h.EXIT_CRASH, 78):
                rep.inconc("mode B child ended with status %r: %s" % (p.returncode, p.stderr.decode("utf8", "replace")[-800:]))
                return
            recs = []
            try:
                with open(log) as f:
                    recs = [json.loads(ln) for ln in f if ln.strip()]
            except FileNotFoundError:
                pass
            bypass = [r for r in recs if r[0] == "end" and r[2]]
            if bypass:
                rep.inconc("child: un-interposed file-system calls %r" % (bypass[0][2][:3],))
            recs = [r for r in recs if r[0] != "end"]
            snapB = h.snapshot(d)
            rep.monitor("mode_b_compared")
            if snapB != info.get("snapshot") or recs != info.get("records"):
                rep.inconc(
                    "in-process crash model disagrees with real process death for %s at %r: dir A=%r B=%r; records equal=%r (A tail %r, B tail %r)"
                    % (spec["name"], case["cp"], info.get("snapshot"), snapB, recs == info.get("records"), (info.get("records") or [])[-3:], recs[-3:])
                )
                return
            # continue on the directory left by the dead process, with all oracles
            orc = Oracle(h, rep, d, case)
            orc.life = 1
            orc.prev_stop = "crash"
            for r in recs:
                if r[0] == "issued" and r[1] is not None:
                    orc.pivs[r[1]] = 1
            orc.acc = [(n, e) for (n, e) in orcA.accepted_lifetime1]
            st = dict(info["st"])
            self.after_first(orc, spec, st, case, "crash")
        finally:
            shutil.rmtree(d, ignore_errors=True)
            for f in (log, specfile):
                try:
                    os.unlink(f)
                except OSError:
                    pass


# ------------------------------------------------------------------------------ case generation
def crash_points(info):
    """All stops for a recorded first lifetime."""
    n_eff = info["effects_in_ops"]
    n_destroy = info["effects_total"] - info["effects_in_ops"]
    cps = [["eff", k] for k in range(1, n_eff + 1)]
    cps += [["op", j] for j in range(0, info["ops_done"] + 1)]
    cps += [["destroy-eff", k] for k in range(1, n_destroy + 1)]
    cps += [["clean"], ["del"]]
    return cps


def second_stops(tier, spec, n2_eff, n2_ops, n2_destroy, i):
    alls = [["eff", k] for k in range(1, n2_eff + 1)] + [["op", j] for j in range(0, n2_ops + 1)] + [["destroy-eff", k] for k in range(1, n2_destroy + 1)] + [["clean"], ["del"]]
    if tier == "thorough" and spec.get("small"):
        return alls
    picks = [["clean"], ["op", n2_ops]]
    if n2_eff:
        picks.append(["eff", 1 + i % n2_eff])
        picks.append(["eff", 1 + (i * 7 + 3) % n2_eff])
    if tier == "thorough":
        picks.append(["op", i % (n2_ops + 1)])
        picks.append(["destroy-eff", 1 + i % max(1, n2_destroy)])
        picks.append(["del"])
        if n2_eff:
            picks.append(["eff", 1 + (i * 13 + 5) % n2_eff])
    return picks


def cp_sig(spec, cp, info, cp2):
    kind = cp[0]
    if kind == "eff":
        name = info["trace"][cp[1] - 1][0] if cp[1] - 1 < len(info["trace"]) else "?"
        store_no = sum(1 for t in info["trace"][: cp[1]] if t[0] == "mkstemp")
        what = [name, min(store_no, 12)]
    elif kind == "op":
        ops = unpack(spec["ops"])
        what = [ops[cp[1] - 1][0] if cp[1] else "start", min(cp[1], 200)]
    elif kind == "destroy-eff":
        what = [info["trace"][info["effects_in_ops"] + cp[1] - 1][0]]
    else:
        what = []
    return [spec["name"], kind, what, cp2]


def gen_chain(r, i):
    chunk = r.choice([None, None, [1, 4], [3, 3], [2, 16], [1, 1], [5, 40]])
    start = r.choice([None, None, {"next-to-send": r.choice([0, 7, 1000, 2**32]), "received": "unknown"}, {"next-to-send": r.choice([1, 99]), "received": {"index": 3, "bitfield": 5}}])
    window = r.choice([None, 1, 5, 64])
    if window == 1 and start and isinstance(start["received"], dict):
        start["received"]["bitfield"] = 1
    spec = {"name": "chain", "chunk": chunk, "start": start, "peer": 10, "window": window}
    lives = []
    for _ in range(r.choice([3, 5, 8])):
        ops = []
        for _ in range(r.choice([1, 2, 4])):
            x = r.random()
            if x < 0.5:
                ops += P(r.choice([0, 1, 2, 9, 10, 11, 21, 35]))
            elif x < 0.8:
                ops.append(["R", "fresh", r.choice([1, 1, 2, 3])])
            elif x < 0.9:
                ops.append(["R", r.randrange(0, 14), 1])
            else:
                ops.append(["E"])
        k = r.random()
        if k < 0.45:
            stop = ["eff", r.randrange(1, 12)]
        elif k < 0.65:
            stop = ["op", r.randrange(0, len(ops) + 1)]
        elif k < 0.75:
            stop = ["destroy-eff", r.randrange(1, 6)]
        elif k < 0.9:
            stop = ["clean"]
        else:
            stop = ["del"]
        faults = []
        if r.random() < 0.35:
            # file-system operations that fail while the process lives on: single ones and stretches
            k0 = r.randrange(1, 14)
            faults = list(range(k0, k0 + r.choice([1, 1, 2, 3, 5, 40])))
            if r.random() < 0.3:
                faults.append(r.randrange(1, 30))
        lives.append([pack(ops), stop, faults])
    return {"cls": "chain", "spec": spec, "lives": lives, "i": i}


def long_run(runner, rep, n):
    """One lifetime of n protects with the bound checked after each (through the 10000 limit)."""
    spec = {"name": "long%d" % n, "ops": pack(P(n))}
    case = {"cls": "enum", "spec": spec, "cp": ["clean"], "cp2": ["op", 3]}
    runner.run_case(case)
    rep.case(["long", n], nontrivial=True)


# ------------------------------------------------------------------------------ entry
def run_shard(shard, rep, only=None):
    from harness import oscore_env

    ok, info = oscore_env.vectors_ok()
    if not ok:
        rep.inconc("RFC 8613 Appendix C vectors do not pass under the shims: %s" % info)
        return
    base = "/dev/shm" if os.path.isdir("/dev/shm") and os.access("/dev/shm", os.W_OK) else None
    root = tempfile.mkdtemp(prefix="verif-c13-", dir=base)
    try:
        runner = Runner(rep, root)
        if only is not None:
            if only.get("cls") == "chain":
                runner.run_chain(only)
            elif only.get("mode") == "B":
                runner.mode_b(only)
            else:
                runner.run_case(only)
            return
        tier = shard["tier"]
        idx, of = shard["index"], shard["of"]
        counter = 0
        nb = 0
        want_b = {"quick": 5, "thorough": 40}[tier]
        for spec0 in specs(tier):
            spec = dict(spec0)
            spec["ops"] = pack(spec0["ops"])
            # recording runs: first lifetime (clean stop) and the second lifetime's shape
            info = {}
            rec_case = {"cls": "enum", "spec": spec, "cp": ["clean"], "cp2": ["clean"]}
            runner.run_case(rec_case, info=info)
            if "effects_total" not in info:
                rep.inconc("recording run of history %s did not complete" % spec["name"])
                continue
            info2 = {}
            d = runner.new_dir(spec)
            try:
                orc = Oracle(runner.h, rep, d, rec_case)
                st = {"peer_next": spec.get("peer", 0)}
                runner.lifetime(orc, spec, unpack(spec["ops"]), st, ["op", len(unpack(spec["ops"]))])
                runner.lifetime(orc, spec, continuation(spec, 2), st, ["clean"], info2)
            finally:
                shutil.rmtree(d, ignore_errors=True)
            n2_eff = info2.get("effects_in_ops", 0)
            n2_ops = info2.get("ops_done", 0)
            n2_destroy = info2.get("effects_total", 0) - n2_eff
            if idx == 0:
                rep.sample({"history": spec["name"], "ops": spec["ops"], "effects": [t[0] for t in info["trace"]][:40], "n_effects_in_ops": info["effects_in_ops"]}, limit=3)
            for i, cp in enumerate(crash_points(info)):
                for cp2 in second_stops(tier, spec, n2_eff, n2_ops, n2_destroy, i):
                    counter += 1
                    if counter % of != idx:
                        continue
                    case = {"cls": "enum", "spec": spec, "cp": cp, "cp2": cp2}
                    if cp[0] in ("eff", "op") and nb < want_b and (counter // of) % 9 == 0:
                        nb += 1
                        case["mode"] = "B"
                        runner.mode_b(case)
                    else:
                        runner.run_case(case)
                    rep.monitor("crash_points")
                    rep.case(cp_sig(spec, cp, info, cp2), nontrivial=True)
            # the same history with single file-system operations (and short stretches of them) failing instead of
            # the process dying; it runs to its end and the process then dies, or stops cleanly
            for k in range(1, info["effects_in_ops"] + 1):
                for width in (1, 3):
                    for cp in (["op", info["ops_done"]], ["clean"]):
                        counter += 1
                        if counter % of != idx:
                            continue
                        runner.run_case({"cls": "enum", "spec": spec, "cp": cp, "cp2": ["clean"], "faults": list(range(k, k + width))})
                        rep.monitor("fault_points")
                        rep.case([spec["name"], "fault", info["trace"][k - 1][0], min(k, 40), width, cp[0]], nontrivial=True)
        r = random.Random(shard["seed"])
        for i in range({"quick": 60, "thorough": 9000}[tier]):
            case = gen_chain(r, i)
            runner.run_chain(case)
            rep.case(["chain", [[s[0], len(p), min(len(f), 4)] for p, s, f in case["lives"]], case["spec"]["chunk"], bool(case["spec"]["start"])], nontrivial=True)
        if tier == "thorough" and idx < 4:
            long_run(runner, rep, [25000, 45000, 12000, 21000][idx])
        elif tier == "quick" and idx == 0:
            long_run(runner, rep, 700)
    finally:
        shutil.rmtree(root, ignore_errors=True)
