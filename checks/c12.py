"""C12 — OSCORE replay protection: a protected request is accepted at most once.

A genuine client context protects real requests with chosen sender sequence numbers; a server
context (in-memory without Echo recovery, in-memory with Echo recovery, and the real
FilesystemSecurityContext) unprotects them in generated arrival orders, interleaved with
messages forged without the key. Oracle: harness.oscore_c12.Model stepped alongside, a
differential run with the forgeries removed, and a class invariant on ReplayWindow."""

import itertools
import os
import random
import shutil
import tempfile

ID = "C12"
LEVEL = "exploration"
INTERPRETER = "system"
SHIMS = True
TECHNIQUE = (
    "runtime monitoring of the real CanUnprotect.unprotect / ReplayWindow under generated arrival histories: reference "
    "replay model (accepted set, maximum, window size) stepped alongside, differential re-run with forgeries removed, "
    "real Appendix B.1.2 Echo exchange for uninitialised windows, icontract class invariant on ReplayWindow"
)
LEVEL_TEXT = (
    "Held on every generated history: all arrival sequences over {0..5} up to length 6 for window sizes 1-3 (exhaustive), "
    "every single-forgery insertion into all sequences over {0..3} up to length 4, all (number, Echo kind) sequences up to "
    "length 3 from the uninitialised state, and ~1e3 (quick) / ~1e5 (thorough) random long histories with repeats, "
    "reordering, jumps beyond the window and interleaved forgeries for window sizes 5/32/64 from empty, persisted and "
    "lost start states; says nothing about histories outside these generators."
)
LEVEL_NOTE = (
    "Trusted: harness/oscore_c12.py (model, forging, invariant), the cbor2/filelock stand-ins (RFC 8613 App. C vectors "
    "re-checked each run). Unseen numbers inside the window and the exact edge n == max-W are recorded, not judged."
)
RULE = (
    "a case is one arrival history (genuine requests with chosen sequence numbers and Echo kinds, forged messages) against one "
    "server kind, window size and start state; histories containing forgeries are executed a second time without them. "
    "Non-trivial = at least two arrivals. distinct = distinct (class, server kind, window size, start state, history) "
    "for the enumerated classes and distinct (.., sequence of expectation classes and forgery kinds) for random histories"
)
ASSUMPTIONS = [
    "window convention as documented by the ReplayWindow doctest: size W with maximum M tracks M-W+1..M; n < M-W must fail, n == M-W is not judged",
    "a forged message is one built without the key: random / bit-flipped / transplanted ciphertext, truncated ciphertext, foreign kid, re-encoded partial IV under a well-formed OSCORE option",
    "the fresh Echo value is obtained only through the real exchange (protected 4.01 from ReplayErrorWithEcho.to_message, unprotected by the client); stale = value issued by another context instance with the same keys",
    "window sizes >= 1 (size 0 is not a replay window)",
]
REQUIRED_MONITORS = {
    "at_most_once": 1000,
    "below_window": 500,
    "above_max": 1000,
    "forgery_fails": 1000,
    "forgery_noninterference": 500,
    "uninit_rejects": 500,
    "uninit_echo_accepts": 200,
    "window_invariant": 10000,
    "persisted_reload": 5,
}
EXHAUSTIVE = {
    "quick": {
        "arrival_sequences": "all sequences over numbers {0..5}, length 1..6, window sizes {1,2,3}, start = initialised empty, server kinds in-memory(no Echo) and FilesystemSecurityContext",
        "single_forgery_insertion": "all sequences over {0..3}, length 1..4, x every insertion position x forged number {0..5} x kinds {rand, flip, transplant}, window sizes {1,2,3}, both server kinds",
        "uninitialised": "all sequences over (number {0..3}) x (Echo none/stale/garbage/correct), length 1..3, window sizes {1,2,3}, server kinds in-memory(Echo) and FilesystemSecurityContext",
    },
    "thorough": {
        "arrival_sequences": "numbers {0..6}, length 1..7, window sizes {1,2,3,4}",
        "single_forgery_insertion": "sequences over {0..4}, length 1..5, forged number {0..6}, kinds {rand, flip, transplant, tagflip}, window sizes {1,2,3,4}",
        "uninitialised": "length 1..4",
    },
}
WORKER_TIMEOUT = {"quick": 600, "thorough": 7200}

NSHARDS = 16
GARBAGE = bytes.fromhex("00ff00ff00ff00ff")
ECHO_KINDS = ("none", "stale", "garbage", "ok")
TIERS = {
    "quick": {"exh_n": 6, "exh_len": 6, "exh_W": (1, 2, 3), "fg_n": 4, "fg_len": 4, "fg_fn": 6, "fg_kinds": ("rand", "flip", "transplant"), "un_n": 4, "un_len": 3, "rand": 70},
    "thorough": {"exh_n": 7, "exh_len": 7, "exh_W": (1, 2, 3, 4), "fg_n": 5, "fg_len": 5, "fg_fn": 7, "fg_kinds": ("rand", "flip", "transplant", "tagflip"), "un_n": 4, "un_len": 4, "rand": 9000},
}


def plan(tier, seed):
    return [{"name": "c12-%d" % i, "seed": seed * 1000 + i, "index": i, "of": NSHARDS, "tier": tier} for i in range(NSHARDS)]


# ------------------------------------------------------------------------------ generators
def gen_exhaustive(t):
    for W in t["exh_W"]:
        for kind in ("ram0", "fs"):
            for L in range(1, t["exh_len"] + 1):
                for seq in itertools.product(range(t["exh_n"]), repeat=L):
                    yield {"cls": "exh", "server": kind, "W": W, "start": "empty", "hist": [["g", n, "none"] for n in seq]}


def gen_forge_insertions(t):
    for W in t["exh_W"]:
        for kind in ("ram0", "fs"):
            for L in range(1, t["fg_len"] + 1):
                for seq in itertools.product(range(t["fg_n"]), repeat=L):
                    for pos in range(L + 1):
                        for fn in range(t["fg_fn"]):
                            for fk in t["fg_kinds"]:
                                hist = [["g", n, "none"] for n in seq]
                                hist.insert(pos, ["f", fk, fn, 7 * fn + pos])
                                yield {"cls": "exh-forge", "server": kind, "W": W, "start": "empty", "hist": hist}


def gen_uninit(t):
    syms = [(n, e) for n in range(t["un_n"]) for e in ECHO_KINDS]
    for W in (1, 2, 3):
        for kind in ("ram1", "fs"):
            for L in range(1, t["un_len"] + 1):
                for seq in itertools.product(syms, repeat=L):
                    yield {"cls": "exh-uninit", "server": kind, "W": W, "start": "uninit", "hist": [["g", n, e] for n, e in seq]}


def gen_random(r, i):
    from harness import oscore_c12 as h

    W = r.choice([5, 32, 64, 64, 32, 5, 1, 2, 7])
    server = r.choice(["fs", "fs", "ram1", "ram0"])
    start = r.choice(["empty", "uninit", "persisted"]) if server == "fs" else r.choice(["empty", "uninit"])
    L = r.choice([12, 40, 120, 250])
    nxt = r.choice([0, 0, 0, 1, W, 255, 65535, 2**32 - 3, 2**40 - 2 - 3 * L - 3000])
    limit = 2**40 - 2
    sent = []
    pending = []
    hist = []
    prefix = []
    if start == "persisted":
        for _ in range(r.choice([1, 3, W, 2 * W + 1])):
            if r.random() < 0.3:
                nxt += r.choice([1, 2, W])
            prefix.append(nxt)
            sent.append(nxt)
            if r.random() < 0.3 and len(sent) > 1:
                prefix.append(r.choice(sent))
            nxt += 1
    forge_p = r.choice([0.0, 0.15, 0.35])
    echo_ok_at = r.choice([0, 1, 3, 10, L + 1]) if start == "uninit" else None
    for k in range(L):
        x = r.random()
        if x < 0.38 or not sent:
            n = nxt
            nxt += 1
            if r.random() < 0.2:
                pending.append(n)
                continue
        elif x < 0.48:
            nxt += r.choice([1, 2, W - 1, W, W + 1, 2 * W + 3, 1000, 70000])
            n = nxt
            nxt += 1
        elif x < 0.66:
            n = r.choice(sent[-2 * W - 2 :])
        elif x < 0.72:
            n = r.choice(sent)
        elif x < 0.88 and pending:
            n = pending.pop(r.randrange(len(pending)))
        else:
            n = max(0, max(sent) - r.choice([W - 2, W - 1, W, W + 1, W + 2]))
        n = min(n, limit)
        nxt = min(nxt, limit)
        sent.append(n)
        ek = "none"
        if start == "uninit" and server != "ram0":
            if k == echo_ok_at:
                ek = "ok"
            else:
                ek = r.choice(["none", "none", "stale", "garbage", "ok"] if k > echo_ok_at else ["none", "none", "stale", "garbage"])
        hist.append(["g", n, ek])
        if r.random() < forge_p:
            m = max(sent)
            fn = r.choice([n, nxt, nxt, nxt + 1, m, max(0, m - 1), max(0, m - W + 1), max(0, m - W), m + W, m + W + 1, r.choice(sent), r.randrange(0, m + 2 * W + 2)])
            fn = min(fn, limit - 1)
            hist.append(["f", r.choice(h.FORGE_KINDS), fn, r.randrange(1 << 30)])
    return {"cls": "rand", "server": server, "W": W, "start": start, "hist": hist, "prefix": prefix, "i": i}


# ------------------------------------------------------------------------------ executor
class Server:
    def __init__(self, kind, ctx, echo, stale, path=None):
        self.kind = kind
        self.ctx = ctx
        self.echo = echo
        self.stale = stale
        self.path = path


class Env:
    def __init__(self, rep, root):
        from harness import oscore_c12 as h

        self.h = h
        self.rep = rep
        self.root = root
        self.peer = h.Peer()
        self.cached = {}
        self.fs_open = []
        self.ndirs = 0
        self.stale_values = {}

    # -- server construction ----------------------------------------------------
    def new_dir(self):
        self.ndirs += 1
        return os.path.join(self.root, "ctx%d" % self.ndirs)

    def stale_echo(self, kind):
        """An Echo value issued by another context instance holding the same keys."""
        h = self.h
        if kind not in self.stale_values:
            if kind == "fs":
                d = h.make_fs_dir(self.new_dir(), h.SERVER_ID, h.CLIENT_ID, 3, {"next-to-send": 0, "received": "unknown"})
                other = h.load_fs(d)
                self.fs_open.append(other)
            else:
                other = h.RamContext(h.SERVER_ID, h.CLIENT_ID, 3, echo=os.urandom(8), initialised=False)
            val, how = h.learn_echo(other, self.peer, 2**39)
            self.probe_outcome(kind, how)
            if val is None:
                raise _Inconc("could not obtain a stale Echo value from a sibling %s context: %s" % (kind, how))
            self.stale_values[kind] = val
        return self.stale_values[kind]

    def probe_outcome(self, kind, how):
        """The Echo-less probe that starts the B.1.2 exchange is itself an arrival on an
        uninitialised window."""
        self.rep.seen("uninit_error_type", how)
        self.rep.monitor("uninit_rejects")
        if how == "accepted":
            self.rep.violation(
                "uninit/accepted-without-fresh-echo/none",
                "request accepted while the replay window was uninitialised without a fresh Echo (none)",
                {"server": kind, "history": [["g", 2**39, "none"]], "note": "the Echo-less probe request of the harness' own 4.01 exchange was accepted"},
                {"cls": "exh-uninit", "server": kind, "W": 3, "start": "uninit", "hist": [["g", 0, "none"]]},
            )

    def learn(self, srv):
        """Obtain this instance's fresh Echo through the real exchange. Needs an uninitialised window."""
        h = self.h
        val, how = h.learn_echo(srv.ctx, self.peer, 2**39 + 1)
        self.probe_outcome(srv.kind, how)
        if val is None:
            self.rep.count("echo_not_obtainable")
        srv.echo = val

    def build(self, kind, W, start, fresh_fs):
        h = self.h
        if kind == "ram0":
            return Server(kind, h.RamContext(h.SERVER_ID, h.CLIENT_ID, W, echo=None, initialised=(start == "empty")), None, None)
        if kind == "ram1":
            srv = Server(kind, h.RamContext(h.SERVER_ID, h.CLIENT_ID, W, echo=os.urandom(8), initialised=False), None, self.stale_echo("ram1"))
            self.learn(srv)
            h.reset_window(srv.ctx, W, start == "empty")
            return srv
        # the real file-backed context; window size through settings.json
        seq = {"next-to-send": 0, "received": "unknown"} if (start == "uninit" or not fresh_fs) else None
        d = h.make_fs_dir(self.new_dir(), h.SERVER_ID, h.CLIENT_ID, W, seq)
        ctx = h.load_fs(d)
        self.fs_open.append(ctx)
        srv = Server(kind, ctx, None, self.stale_echo("fs"), d)
        if seq is not None:
            self.learn(srv)
            if start == "empty":
                h.reset_window(ctx, W, True)
        return srv

    def server_for(self, case):
        """Enumerated classes share one instance per (kind, W) and get a fresh ReplayWindow per
        history; random histories on the file-backed context go through the real load path."""
        h = self.h
        kind, W, start = case["server"], case["W"], case["start"]
        if case["cls"] in ("rand", "persist") and kind == "fs":
            if len(self.fs_open) > 40:
                self.close_some()
            return self.build(kind, W, "empty" if start == "persisted" else start, fresh_fs=True)
        key = (kind, W)
        srv = self.cached.get(key)
        if srv is None:
            srv = self.build(kind, W, start, fresh_fs=False)
            self.cached[key] = srv
        h.reset_window(srv.ctx, W, start == "empty")
        return srv

    def close_some(self):
        keep = {id(s.ctx) for s in self.cached.values()}
        rest = []
        for c in self.fs_open:
            if id(c) in keep:
                rest.append(c)
            else:
                self.h.close_fs(c)
                shutil.rmtree(c.basedir, ignore_errors=True)
        self.fs_open = rest

    def close(self):
        for c in self.fs_open:
            self.h.close_fs(c)
        self.fs_open = []

    # -- one arrival ----------------------------------------------------------------
    def deliver(self, srv, wire):
        h = self.h
        oscore = h.oscore
        try:
            srv.ctx.unprotect(h.incoming(wire))
            return "A", None
        except h.WindowInvariantBroken:
            raise
        except oscore.ProtectionInvalid as e:
            return "R", type(e).__name__
        except Exception as e:  # noqa: BLE001 - classified by the caller
            return "X", type(e).__name__

    def run(self, srv, model, hist, case, judge):
        """Returns the verdict list of the genuine arrivals."""
        h = self.h
        rep = self.rep
        verdicts = []
        classes = []
        for step in hist:
            if step[0] == "g":
                _, n, ek = step
                if ek == "ok" and srv.echo is None:
                    raise _Inconc("fresh Echo value of a %s context was not obtainable through the 4.01 exchange" % srv.kind)
                echo = {"none": None, "stale": srv.stale, "garbage": GARBAGE, "ok": srv.echo}[ek]
                wire, _rid = self.peer.request(n, echo)
                exp, clause = model.expect(n, ek == "ok")
                maxacc = model.M
                v, et = self.deliver(srv, wire)
                verdicts.append(v)
                classes.append(clause[0] + ek[0] + v)
                if v == "A":
                    model.accepted_now(n)
                if not judge:
                    continue
                if v == "X":
                    rep.seen("genuine_other_exception", et)
                else:
                    rep.seen("genuine_outcome", "%s/%s/%s" % (clause, v, et))

                def witness():
                    return {"number": n, "echo": ek, "verdict": v, "exception": et, "window_size": model.W, "max_accepted_before": maxacc, "genuine_index": len(verdicts) - 1, "history": hist[:60], "server": srv.kind}

                if clause == "twice":
                    rep.monitor("at_most_once")
                    if v == "A":
                        rep.violation("replay/accepted-twice", "a sender sequence number was unprotected successfully a second time", witness(), case)
                elif clause == "below":
                    rep.monitor("below_window")
                    if v == "A":
                        rep.violation("window/below-window-accepted", "a number that has fallen out of the replay window (n < max - W) was accepted", witness(), case)
                elif clause == "above":
                    rep.monitor("above_max")
                    if v == "R":
                        rep.violation("fresh/above-max-rejected", "an authentic request with a number above everything seen was rejected", witness(), case)
                    elif v == "X":
                        rep.violation("fresh/above-max-raises/" + str(et), "unprotecting an authentic request with a number above everything seen raised %s" % et, witness(), case)
                elif clause == "uninit":
                    rep.monitor("uninit_rejects")
                    if v == "A":
                        rep.violation("uninit/accepted-without-fresh-echo/" + ek, "request accepted while the replay window was uninitialised without a fresh Echo (%s)" % ek, witness(), case)
                elif clause == "uninit-echo":
                    rep.monitor("uninit_echo_accepts")
                    if v != "A":
                        rep.violation("uninit/correct-echo-rejected", "request echoing the value freshly issued by this instance was not accepted (%s %s)" % (v, et), witness(), case)
                elif clause == "inwindow":
                    rep.count("inwindow_unseen_accepted" if v == "A" else "inwindow_unseen_rejected")
                elif clause == "edge":
                    rep.count("edge_max_minus_W_accepted" if v == "A" else "edge_max_minus_W_rejected")
            else:
                _, fk, fn, aux = step
                wire = h.forge(self.peer, fk, fn, aux)
                if wire is None:
                    continue
                v, et = self.deliver(srv, wire)
                classes.append("F" + fk[0] + model.expect(fn, False)[1][0])
                if judge:
                    rep.monitor("forgery_fails")
                    rep.seen("forgery_outcome", "%s/%s/%s" % (fk, v, et))
                    if v == "A":
                        rep.violation("forgery/accepted/" + fk, "a message built without the key was unprotected successfully", {"forged": step, "history": hist[:60], "window_size": model.W, "server": srv.kind}, case)
        return verdicts, classes

    def prepare(self, case):
        """Server and model in the case's start state."""
        h = self.h
        srv = self.server_for(case)
        W, start = case["W"], case["start"]
        model = h.Model(W, start != "uninit")
        if start == "persisted":
            # real clean stop and reload with a persisted window: run the prefix, _destroy(), load again
            pre = [["g", n, "none"] for n in case.get("prefix", [])]
            self.run(srv, model, pre, case, judge=False)
            srv.ctx._destroy()
            ctx = h.load_fs(srv.path)
            self.fs_open.append(ctx)
            srv = Server("fs", ctx, None, srv.stale, srv.path)
            win = getattr(ctx, "recipient_replay_window", None)
            if win is not None and win.is_initialized():
                self.rep.monitor("persisted_reload")
            else:
                self.rep.count("persisted_reload_came_back_uninitialised")
                model.init = False
                self.learn(srv)
        return srv, model

    def execute(self, case):
        h = self.h
        rep = self.rep
        hist = case["hist"]
        before = h.INV["evaluations"]
        try:
            srv, model = self.prepare(case)
            verdicts, classes = self.run(srv, model, hist, case, judge=True)
            if any(s[0] == "f" for s in hist):
                genuine = [s for s in hist if s[0] == "g"]
                srv2, model2 = self.prepare(case)
                verdicts2, _ = self.run(srv2, model2, genuine, case, judge=False)
                rep.monitor("forgery_noninterference")
                if verdicts != verdicts2:
                    k = next(i for i, (a, b) in enumerate(zip(verdicts, verdicts2)) if a != b)
                    rep.violation(
                        "forgery/changes-later-verdict",
                        "the verdicts for the genuine requests differ from those of the same history with the forgeries removed",
                        {"first_difference_at_genuine_index": k, "genuine": genuine[k], "with_forgeries": verdicts[: k + 1], "without": verdicts2[: k + 1], "history": hist[:60], "window_size": case["W"], "server": case["server"]},
                        case,
                    )
        except h.WindowInvariantBroken as e:
            rep.violation("invariant/" + e.which, "ReplayWindow invariant broken: %s" % e, {"detail": e.detail, "history": hist[:60], "window_size": case["W"], "server": case["server"]}, case)
            self.cached.pop((case["server"], case["W"]), None)
            classes = ["inv"]
        rep.monitor("window_invariant", h.INV["evaluations"] - before)
        if case["cls"] == "rand":
            sig = [case["cls"], case["server"], case["W"], case["start"], "".join(classes)]
        else:
            sig = [case["cls"], case["server"], case["W"], case["start"], hist]
        rep.case(sig, nontrivial=len(hist) >= 2)


class _Inconc(Exception):
    pass


def run_shard(shard, rep, only=None):
    from harness import oscore_env

    ok, info = oscore_env.vectors_ok()
    if not ok:
        rep.inconc("RFC 8613 Appendix C vectors do not pass under the shims: %s" % info)
        return
    from harness import oscore_c12 as h

    mech = h.install_window_invariant()
    rep.seen("invariant_mechanism", mech)
    base = "/dev/shm" if os.path.isdir("/dev/shm") and os.access("/dev/shm", os.W_OK) else None
    root = tempfile.mkdtemp(prefix="verif-c12-", dir=base)
    env = Env(rep, root)
    try:
        if only is not None:
            try:
                env.execute(only)
            except _Inconc as e:
                rep.inconc(str(e))
            return
        t = TIERS[shard["tier"]]
        idx, of = shard["index"], shard["of"]
        try:
            for gi, gen in enumerate((gen_exhaustive, gen_forge_insertions, gen_uninit)):
                for i, case in enumerate(gen(t)):
                    if i % of != idx:
                        continue
                    env.execute(case)
                    if i < 2 * of and idx == gi:
                        rep.sample({"class": case["cls"], "server": case["server"], "W": case["W"], "history": case["hist"]}, limit=3)
            r = random.Random(shard["seed"])
            for i in range(t["rand"]):
                case = gen_random(r, i)
                env.execute(case)
        except _Inconc as e:
            rep.inconc(str(e))
        if h.INV["unreachable"]:
            rep.count("window_invariant_unreachable", h.INV["unreachable"])
    finally:
        env.close()
        shutil.rmtree(root, ignore_errors=True)
