#!/bin/sh
# tools/allquick.sh [seed] : every check's quick tier once (no evidence written); to be run after EVERY change to /repo,
# because a repair made for one property can change what another check's harness peers are allowed to do.
seed=${1:-1}
cd /verif
for c in C01 C02 C03 C04 C05 C06 C07 C08 C09 C10 C11 C12 C13 C14 C15 C16 C17 C18 C19 C20; do
  VERIF_SEED=$seed ./vcheck $c --tier quick --no-evidence > /dev/shm/q_$c.log 2>&1
  echo "$c exit=$? keys=$(grep -c 'key=' /dev/shm/q_$c.log) inconclusive=$(grep -c INCONC /dev/shm/q_$c.log)"
done
