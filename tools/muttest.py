#!/usr/bin/env python3
"""tools/muttest.py <ID> <relative file> <old> <new> [--tier quick]
Copy /repo/aiocoap (and tests) to a scratch dir, replace one occurrence of <old> by <new>, run the check
against it with VERIF_REPO, print the verdict lines, delete the copy. Exit code = the check's."""
import os, shutil, subprocess, sys, tempfile
prop, rel, old, new = sys.argv[1:5]
tier = sys.argv[6] if len(sys.argv) > 6 and sys.argv[5] == "--tier" else "quick"
d = tempfile.mkdtemp(prefix="mut-", dir="/dev/shm")
try:
    shutil.copytree("/repo/aiocoap", d + "/aiocoap", ignore=shutil.ignore_patterns("__pycache__"))
    shutil.copytree("/repo/tests", d + "/tests", ignore=shutil.ignore_patterns("__pycache__"))
    p = os.path.join(d, rel)
    s = open(p).read()
    if s.count(old) < 1:
        print("MUTANT NOT APPLICABLE: pattern not found"); sys.exit(3)
    s = s.replace(old, new, 1)
    open(p, "w").write(s)
    env = dict(os.environ, VERIF_REPO=d)
    r = subprocess.run(["./vcheck", prop, "--tier", tier, "--no-evidence"], cwd="/verif", env=env, stdout=subprocess.PIPE, stderr=subprocess.STDOUT, text=True)
    lines = [l for l in r.stdout.splitlines() if l.startswith(("VIOLATION", "  key=", "INCONCLUSIVE", "KNOWN", prop))]
    print("\n".join(l[:300] for l in lines[:12]))
    print("exit", r.returncode)
    sys.exit(r.returncode)
finally:
    shutil.rmtree(d, ignore_errors=True)
