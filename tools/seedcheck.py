#!/usr/bin/env python3
"""tools/seedcheck.py <seed dir name under /verif/seeded> [<check id> ...] [--tier quick]
Apply seeded/<name>/patch.diff to a scratch copy of /repo (aiocoap/ + tests/), run the given checks
(default: the property named in meta.json) against it with VERIF_REPO, print verdict lines, delete the copy."""
import json, os, shutil, subprocess, sys, tempfile
args = [a for a in sys.argv[1:] if not a.startswith("--")]
tier = "thorough" if "--thorough" in sys.argv else "quick"
name = args[0]
sd = os.path.join("/verif/seeded", name)
meta = json.load(open(os.path.join(sd, "meta.json"))) if os.path.exists(os.path.join(sd, "meta.json")) else {}
checks = args[1:] or [meta.get("property", name[:3])]
d = tempfile.mkdtemp(prefix="seed-", dir="/dev/shm")
rc_all = 0
try:
    shutil.copytree("/repo/aiocoap", d + "/aiocoap", ignore=shutil.ignore_patterns("__pycache__"))
    shutil.copytree("/repo/tests", d + "/tests", ignore=shutil.ignore_patterns("__pycache__"))
    r = subprocess.run(["patch", "-p1", "-s", "-i", os.path.join(sd, "patch.diff")], cwd=d, stdout=subprocess.PIPE, stderr=subprocess.STDOUT, text=True)
    if r.returncode != 0:
        print("PATCH FAILED:", r.stdout); sys.exit(3)
    for c in checks:
        r = subprocess.run(["./vcheck", c, "--tier", tier, "--no-evidence"], cwd="/verif", env=dict(os.environ, VERIF_REPO=d), stdout=subprocess.PIPE, stderr=subprocess.STDOUT, text=True)
        lines = [l for l in r.stdout.splitlines() if l.startswith(("VIOLATION", "  key=", "INCONCLUSIVE"))]
        print("== %s on seeded/%s: exit %d" % (c, name, r.returncode))
        print("\n".join(l[:240] for l in lines[:8]))
        rc_all = max(rc_all, r.returncode)
finally:
    shutil.rmtree(d, ignore_errors=True)
sys.exit(rc_all)
