#!/usr/bin/env python3
"""tools/covreport.py <ID> [<ID>...] [--tier quick] : run the checks with VERIF_COV set, merge the per-shard line
dumps and print, for each file the property is anchored in, the executable lines inside functions that no
workload reached (grouped into ranges, with the enclosing function). Diagnostic only: it shows which
dimensions a generator holds constant; it decides nothing."""
import glob, json, os, subprocess, sys, tempfile, shutil, ast

VERIF = os.path.dirname(os.path.dirname(os.path.abspath(__file__)))
REPO = os.environ.get("VERIF_REPO", "/repo")


def executable_lines(path):
    """line -> qualified function name, for lines of code objects nested in functions (module level runs at import)"""
    src = open(path).read()
    out = {}

    def walk(code, qual, depth):
        for c in code.co_consts:
            if hasattr(c, "co_code"):
                walk(c, (qual + "." if qual else "") + c.co_name, depth + 1)
        if depth == 0:
            return
        for _, _, line in code.co_lines():
            if line is not None and line != code.co_firstlineno:
                out.setdefault(line, qual)

    walk(compile(src, path, "exec"), "", 0)
    # drop docstring-only lines and lines of class bodies (executed at import)
    return out


def main():
    ids = [a for a in sys.argv[1:] if not a.startswith("--")]
    tier = "quick"
    if "--tier" in sys.argv:
        tier = sys.argv[sys.argv.index("--tier") + 1]
        ids.remove(tier)
    props = {json.loads(l)["id"]: json.loads(l) for l in open(os.path.join(VERIF, "properties.jsonl"))}
    for pid in ids:
        d = tempfile.mkdtemp(prefix="verifcov-", dir="/dev/shm")
        try:
            r = subprocess.run([os.path.join(VERIF, "vcheck"), pid, "--tier", tier, "--no-evidence"], env={**os.environ, "VERIF_COV": d}, capture_output=True, text=True)
            hit = {}
            nd = 0
            for f in glob.glob(d + "/*.json"):
                nd += 1
                for fn, lines in json.load(open(f)).items():
                    hit.setdefault(fn, set()).update(lines)
        finally:
            shutil.rmtree(d, ignore_errors=True)
        print("== %s (%s tier, exit %d, %d shard dumps merged)" % (pid, tier, r.returncode, nd))
        for rel in props[pid]["anchors"]["files"]:
            path = os.path.join(REPO, rel)
            if not os.path.exists(path):
                continue
            ex = executable_lines(path)
            got = hit.get(rel, set())
            missed = sorted(l for l in ex if l not in got)
            print("  %s: %d of %d executable function lines reached" % (rel, len(ex) - len(missed), len(ex)))
            # ranges by function
            cur = None
            for l in missed + [None]:
                if cur and l is not None and l <= cur[1] + 2 and ex[l] == cur[2]:
                    cur[1] = l
                    continue
                if cur:
                    print("      %s:%d-%d  %s" % (rel.split("/")[-1], cur[0], cur[1], cur[2]))
                cur = [l, l, ex[l]] if l is not None else None


main()
