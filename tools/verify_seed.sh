#!/bin/sh
# tools/verify_seed.sh <worktree> : run the repository's test suite inside a private network namespace
# (other runs bind [::1]:5683 concurrently) against the worktree as it is; print the summary line and failures.
cd "$1" || exit 2
unshare -n sh -c 'ip link set lo up; /venv/bin/python -m pytest -q -p no:cacheprovider --timeout=900 --continue-on-collection-errors tests/ 2>&1' | grep -E "^(FAILED|ERROR)|passed|failed" | tail -12
