#!/usr/bin/env python3
"""Regenerate MANIFEST.json from the metadata of the check modules in checks/."""
import importlib, json, os, sys, glob
VERIF = os.path.dirname(os.path.dirname(os.path.abspath(__file__)))
sys.path.insert(0, VERIF)
props = [json.loads(l) for l in open(os.path.join(VERIF, "properties.jsonl"))]
checks, na = [], []
for p in props:
    pid = p["id"]
    path = os.path.join(VERIF, "checks", pid.lower() + ".py")
    enabled = open(os.path.join(VERIF, "checks", "ENABLED")).read().split()
    if not os.path.exists(path) or pid not in enabled:
        na.append({"property_id": pid, "reason": "check not built yet in this round (runtime monitoring applies; see DESIGN.md section 3)"})
        continue
    m = importlib.import_module("checks." + pid.lower())
    if getattr(m, "NOT_CLAIMED", None):
        na.append({"property_id": pid, "reason": m.NOT_CLAIMED})
        continue
    checks.append({
        "property_id": pid,
        "quick_cmd": "./vcheck %s --tier quick" % pid,
        "thorough_cmd": "./vcheck %s --tier thorough" % pid,
        "evidence_file": "/verif/evidence/%s.json" % pid,
        "replay_cmd_template": "./vcheck %s --replay {path}" % pid,
        "engine": "vcheck",
        "level_claimed": {"category": m.LEVEL, "text": m.LEVEL_TEXT, "design_ref": "DESIGN.md section 3, %s" % pid},
        "level_note": m.LEVEL_NOTE,
        "technique": m.TECHNIQUE,
    })
man = {
    "version": 1,
    "setup_cmd": "./setup.sh",
    "hooks": {
        "guard": "AIOCOAP_VERIF",
        "enable": "no source hooks: all instrumentation is applied from /verif by wrapping classes / replacing module attributes at import time in the worker processes (AIOCOAP_VERIF=1 is exported to workers but read by nothing in /repo)",
        "baseline_off_cmd": "cd /repo && /venv/bin/python -m pytest -ra -q -p no:cacheprovider --timeout=900 --continue-on-collection-errors",
        "source_commits": [],
        "add_only": True,
    },
    "engines": [{"name": "vcheck", "path": "/verif/vcheck", "serves_properties": [c["property_id"] for c in checks],
                 "kind_free_text": "runtime monitoring: real aiocoap code run under generated hostile workloads on a virtual-time event loop and a simulated datagram network; oracles are independent reference codecs/models and offline checkers over recorded wire/boundary histories"}],
    "checks": checks,
    "notes": "All checks: ./vcheck <ID> --tier quick|thorough; exit 0 held on observed, 1 VIOLATION, 2 INCONCLUSIVE. Known findings: known_findings.json.",
    "not_applicable": na,
}
json.dump(man, open(os.path.join(VERIF, "MANIFEST.json"), "w"), indent=1)
print("checks:", [c["property_id"] for c in checks], "na:", [n["property_id"] for n in na])
