#!/bin/sh
# tools/intake_seed.sh <worktree> <ID> <name> <checks...> : copy patch+demo to seeded/<name>, run the demo with and without
# the change, run the given checks against the patch, start the repository suite in the background.
wt=$1; id=$2; name=$3; shift 3
mkdir -p /verif/seeded/$name
cp $wt/patch.diff $wt/demo_$id.py /verif/seeded/$name/
PY=/venv/bin/python; case "$id" in C11|C12|C13) PY="env PYTHONPATH=/verif/harness/shims:$wt /usr/bin/python3";; esac
( cd $wt && echo "demo WITH change: $($PY demo_$id.py 2>&1 | tail -1 | cut -c1-90)"; git apply -R patch.diff; echo "demo WITHOUT change: $($PY demo_$id.py 2>&1 | tail -1 | cut -c1-90)"; git apply patch.diff )
python3 /verif/tools/seedcheck.py $name "$@" | cut -c1-230
( /verif/tools/verify_seed.sh $wt > /dev/shm/seedtest_$name.log 2>&1 & )
