#!/usr/bin/env python3
"""tools/mkhuntprompt.py <ID> <worktree> > prompt : task text for a sub-agent that looks for genuine violations of a
property in the unchanged code (property text only; nothing about the checks in /verif)."""
import json, sys
pid, wt = sys.argv[1], sys.argv[2]
props = {json.loads(l)["id"]: json.loads(l) for l in open("/verif/properties.jsonl")}
p = props[pid]
t = open("/verif/tools/hunt_template.md").read()
s = (t.replace("@@WT@@", wt).replace("@@ID@@", pid).replace("@@TITLE@@", p["title"]).replace("@@STATEMENT@@", p["statement"])
     .replace("@@QUANT@@", p["quantifier"]["text"]).replace("@@FILES@@", ", ".join(p["anchors"]["files"])))
if pid in ("C11", "C12", "C13"):
    s += ("\nOSCORE specifics: the `cryptography` package exists only for /usr/bin/python3 (3.11), and cbor2 / filelock are absent; stand-ins live in /verif/harness/shims (the ONLY thing under /verif you may use, via PYTHONPATH). Run demos as `cd <worktree> && PYTHONPATH=/verif/harness/shims:<worktree> /usr/bin/python3 hunt_%s_<n>.py`.\n" % pid)
print(s)
