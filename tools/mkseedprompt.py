#!/usr/bin/env python3
"""tools/mkseedprompt.py <ID> <worktree> > prompt : build the task text for an independent seeding sub-agent
(property text only + what earlier testers already submitted; nothing about the checks in /verif)."""
import glob, json, sys
pid, wt = sys.argv[1], sys.argv[2]
props = {json.loads(l)["id"]: json.loads(l) for l in open("/verif/properties.jsonl")}
p = props[pid]
t = open("/verif/tools/seed_template.md").read()
s = (t.replace("@@WT@@", wt).replace("@@ID@@", pid).replace("@@TITLE@@", p["title"]).replace("@@STATEMENT@@", p["statement"])
     .replace("@@QUANT@@", p["quantifier"]["text"]).replace("@@FILES@@", ", ".join(p["anchors"]["files"])))
prev = [json.load(open(d + "/meta.json"))["what"] for d in sorted(glob.glob("/verif/seeded/%s-*" % pid))]
if prev:
    s += "\n\nIMPORTANT: other testers have already submitted the following change(s) for this property; yours must be SUBSTANTIALLY DIFFERENT (another mechanism, another code site, another kind of trigger):\n" + "\n".join("- " + w for w in prev) + "\n"
s += "\nNotes: other processes on this machine bind UDP port 5683 concurrently, so run the repository test suite inside a private network namespace: `cd <worktree> && unshare -n sh -c 'ip link set lo up; /venv/bin/python -m pytest -q -p no:cacheprovider --timeout=900 --continue-on-collection-errors tests/ 2>&1 | tail -12'` (with -n the 5 known failures are test_uri_parser x2, test_reverseproxy x2, test_tls; test_big_resource is flaky).\n"
if pid in ("C11", "C12", "C13"):
    s += ("OSCORE specifics: the `cryptography` package exists only for /usr/bin/python3 (3.11), and the third-party packages cbor2 / filelock are absent; stand-ins live in /verif/harness/shims (the ONLY thing under /verif you may use, via PYTHONPATH - do not read anything else there). So write and run the demo as `cd <worktree> && PYTHONPATH=/verif/harness/shims:<worktree> /usr/bin/python3 demo_%s.py`. The OSCORE tests of the repository's suite are skipped under /venv (no cryptography), so additionally make sure the RFC 8613 Appendix C vectors still pass with your change: `cd <worktree> && PYTHONPATH=/verif/harness/shims:<worktree> /usr/bin/python3 -c \"import aiocoap.defaults as d; d.oscore_missing_modules=lambda: []; import unittest, tests.test_oscore as t; r=unittest.TextTestRunner(verbosity=0).run(unittest.defaultTestLoader.loadTestsFromTestCase(t.TestOSCOAPStatic)); print(r.testsRun, r.failures, r.errors)\"` (9 tests, no failures).\n" % pid)
print(s)
