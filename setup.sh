#!/bin/sh
# Offline setup after a fresh restore: install icontract beside the repo's interpreter, self-test references.
cd "$(dirname "$0")" || exit 1
if [ ! -d .deps/icontract ]; then
  mkdir -p .deps
  PIP_NO_INDEX=1 /venv/bin/pip install -q --no-index --find-links /opt/veriftools/wheels --target .deps icontract >/dev/null 2>&1 || echo "warning: icontract not installed (checks fall back to own wrappers)"
fi
PYTHONPATH="$(pwd)" /venv/bin/python -c "from harness import refcodec; assert refcodec.selftest(); print('refcodec ok')"
