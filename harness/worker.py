"""Worker entry: python -m harness.worker <ID> <shard.json> <out.json> [only.json]

Runs one shard of one check in a fresh process against /repo's working tree."""

import importlib
import json
import os
import sys
import time
import faulthandler


def main():
    prop, shardfile, outfile = sys.argv[1:4]
    only = None
    if len(sys.argv) > 4:
        only = json.load(open(sys.argv[4]))
    from harness import boot

    mod = importlib.import_module("checks." + prop.lower())
    boot.setup_paths(shims=getattr(mod, "SHIMS", False))
    faulthandler.enable()
    wall = float(os.environ.get("VERIF_WORKER_WALL", "0") or 0)
    if wall:
        faulthandler.dump_traceback_later(wall, exit=False)
    from harness.report import Reporter

    shard = json.load(open(shardfile))
    rep = Reporter(prop, shard)
    covdir = os.environ.get("VERIF_COV")
    # line reach of the code under test: always on where it is cheap (sys.monitoring, Python 3.12+), so that every
    # evidence file can say how much of the anchored files this very run executed
    reach = covdir or (hasattr(sys, "monitoring") and not os.environ.get("VERIF_NOREACH"))
    if reach:
        from harness import linecov

        linecov.start(boot.REPO)
    t0 = time.time()
    status = "ok"
    try:
        boot.assert_repo_aiocoap()
        if only is not None:
            mod.run_shard(shard, rep, only=only)
        else:
            mod.run_shard(shard, rep)
    except boot.Inconclusive as e:
        rep.inconc("inconclusive: %s" % e)
    except BaseException as e:  # harness failure: inconclusive, never a violation
        import traceback

        rep.inconc("harness exception in shard %r: %s" % (shard.get("name"), "".join(traceback.format_exception(type(e), e, e.__traceback__))[-3000:]))
        status = "harness-exception"
    if covdir:
        linecov.dump(os.path.join(covdir, "%s-%s.json" % (prop, shard.get("name", "shard"))))
    out = rep.dump()
    if reach:
        out["linecov"] = linecov.snapshot()
    out["status"] = status
    out["wall"] = time.time() - t0
    with open(outfile, "w") as f:
        json.dump(out, f, default=repr)


if __name__ == "__main__":
    main()
