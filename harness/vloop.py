"""Virtual-time asyncio event loop.

`VLoop` is a real `asyncio.SelectorEventLoop`; only its clock and the blocking part
of its selector are replaced: `select(timeout)` never sleeps but advances the
virtual clock by `timeout`. `select(None)` (nothing runnable, nothing scheduled)
in a closed simulation is a definite hang and raises `Hang`.

`time.time` is replaced process-wide by EPOCH + virtual time (aiocoap's observe
client consults the wall clock for the RFC 7641 128 s rule); calls are counted.
"""

import asyncio
import selectors
import time as _time

EPOCH = 1_700_000_000.0
_real_time = _time.time

_current = None  # the loop whose clock backs time.time
time_calls = 0


class Hang(Exception):
    """The loop has nothing left to do although the scenario has not finished."""


class HorizonExceeded(Exception):
    """Virtual-time watchdog (inconclusive, never a violation)."""


def _virtual_time():
    global time_calls
    time_calls += 1
    if _current is not None:
        return EPOCH + _current._vtime
    return _real_time()


def install_time():
    _time.time = _virtual_time


class _VSelector:
    """Wraps a real selector; never blocks."""

    def __init__(self, loop):
        self._sel = selectors.DefaultSelector()
        self._loop = loop

    def select(self, timeout=None):
        ev = self._sel.select(0)
        if ev:
            return ev
        if timeout is None:
            raise Hang()
        if timeout > 0:
            lp = self._loop
            lp._vtime += timeout
            if lp._vtime > lp.horizon:
                raise HorizonExceeded(lp._vtime)
        return []

    def __getattr__(self, name):
        return getattr(self._sel, name)


class VLoop(asyncio.SelectorEventLoop):
    def __init__(self, horizon=1e7):
        self._vtime = 0.0
        self.horizon = horizon
        super().__init__(selector=_VSelector(self))
        self._clock_resolution = 1e-9
        self.exceptions = []  # contexts given to the loop exception handler
        self.set_exception_handler(self._on_exception)

    def time(self):
        return self._vtime

    def _on_exception(self, loop, context):
        self.exceptions.append(
            {
                "message": context.get("message"),
                "exception": repr(context.get("exception")),
                "exc_type": type(context.get("exception")).__name__
                if context.get("exception") is not None
                else None,
                "handle": repr(context.get("handle"))[:200],
                "future": repr(context.get("future") or context.get("task"))[:300],
                "vtime": self._vtime,
            }
        )


def new_loop(horizon=1e7):
    global _current
    loop = VLoop(horizon=horizon)
    asyncio.set_event_loop(loop)
    _current = loop
    return loop


def close_loop(loop):
    global _current
    try:
        # cancel whatever is left so that closing does not warn
        pending = [t for t in asyncio.all_tasks(loop) if not t.done()]
        for t in pending:
            t.cancel()
        if pending:
            try:
                loop.run_until_complete(asyncio.gather(*pending, return_exceptions=True))
            except (Hang, HorizonExceeded):
                pass
            except BaseException:
                pass
    finally:
        try:
            loop.close()
        finally:
            asyncio.set_event_loop(None)
            if _current is loop:
                _current = None
