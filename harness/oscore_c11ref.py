"""Independent reading of RFC 8613 for check C11 (imports nothing from aiocoap).

* section 3.2.1  key / Common IV derivation (HKDF from hashlib/hmac, own CBOR encoder)
* section 5.2    AEAD nonce
* section 5.4    external_aad / AAD (Enc_structure of RFC 8152 section 5.3)
* section 6.1    compressed OSCORE option (flag byte n/k/h, Partial IV, s + kid context, kid)
* section 5.3    plaintext layout (code, Class E options, 0xFF, payload)

The only thing shared with the code under test is the `cryptography` AEAD primitives (a
third-party dependency, not code under test).  `selftest()` runs the RFC 8613 Appendix C
vectors C.1.1, C.4, C.7 and C.8 through this module.

Group OSCORE (draft-ietf-core-oscore-groupcomm, the `g_*` functions at the end): key / Common IV /
Signature Encryption Key derivation (section 2), pairwise keys (section 2.5.1), the extended
external_aad (section 3.4), the countersignature (RFC 9338 Countersign_structure) and its keystream
encryption (section 4.2).  Signature, ECDH and AES-CBC primitives come from `cryptography`; the
Ed25519 -> X25519 key conversion is done here with plain integers.  There are no published test
vectors for that draft; this part is validated by agreeing with the code under test on AEAD- and
signature-verified messages (two independent constructions cannot agree by accident) and by
`g_selftest()` (seal/open consistency, key conversion identity).
"""

import hashlib
import hmac
from collections import namedtuple

# COSE algorithm registry (RFC 9053 tables 5-7): name -> (value, key bytes, tag bytes, nonce bytes)
ALGS = {
    "AES-CCM-16-64-128": (10, 16, 8, 13),
    "AES-CCM-16-64-256": (11, 32, 8, 13),
    "AES-CCM-64-64-128": (12, 16, 8, 7),
    "AES-CCM-64-64-256": (13, 32, 8, 7),
    "AES-CCM-16-128-128": (30, 16, 16, 13),
    "AES-CCM-16-128-256": (31, 32, 16, 13),
    "AES-CCM-64-128-128": (32, 16, 16, 7),
    "AES-CCM-64-128-256": (33, 32, 16, 7),
    "A128GCM": (1, 16, 16, 12),
    "A192GCM": (2, 24, 16, 12),
    "A256GCM": (3, 32, 16, 12),
    "ChaCha20/Poly1305": (24, 32, 16, 12),
}
HASHES = {"sha256": hashlib.sha256, "sha384": hashlib.sha384, "sha512": hashlib.sha512}


class RefError(Exception):
    """The reference cannot process the input (malformed per RFC 8613)."""


class NonCanonical(RefError):
    """The option value can be read field by field but is not the encoding RFC 8613 fixes for
    these field values (`kind` names which rule it breaks); a receiver has nothing to accept here."""

    def __init__(self, kind, text):
        RefError.__init__(self, text)
        self.kind = kind


# ---- minimal CBOR (RFC 8949 preferred serialisation) for the fixed structures used here -----


def _head(major, n):
    if n < 24:
        return bytes([(major << 5) | n])
    for bits, ai in ((8, 24), (16, 25), (32, 26), (64, 27)):
        if n < (1 << bits):
            return bytes([(major << 5) | ai]) + n.to_bytes(bits // 8, "big")
    raise ValueError(n)


def cbor(x):
    if x is None:
        return b"\xf6"
    if x is True:
        return b"\xf5"
    if x is False:
        return b"\xf4"
    if isinstance(x, int):
        return _head(0, x) if x >= 0 else _head(1, -1 - x)
    if isinstance(x, bytes):
        return _head(2, len(x)) + x
    if isinstance(x, str):
        b = x.encode("utf8")
        return _head(3, len(b)) + b
    if isinstance(x, (list, tuple)):
        return _head(4, len(x)) + b"".join(cbor(i) for i in x)
    if isinstance(x, dict):
        return _head(5, len(x)) + b"".join(cbor(k) + cbor(v) for k, v in x.items())
    raise TypeError(type(x))


# ---- section 3.2.1 ----------------------------------------------------------------------------


def hkdf(hashname, salt, ikm, info, length):
    h = HASHES[hashname]
    if not salt:
        salt = b"\0" * h().digest_size
    prk = hmac.new(salt, ikm, h).digest()
    out = b""
    t = b""
    i = 1
    while len(out) < length:
        t = hmac.new(prk, t + info + bytes([i]), h).digest()
        out += t
        i += 1
    return out[:length]


Params = namedtuple("Params", "alg hashname secret salt id_context")


def derive(params, ident, typ):
    """typ 'Key' (ident = sender/recipient ID) or 'IV' (ident ignored, empty)."""
    value, klen, _tag, nlen = ALGS[params.alg]
    length = klen if typ == "Key" else nlen
    info = cbor([ident if typ == "Key" else b"", params.id_context, value, typ, length])
    return hkdf(params.hashname, params.salt, params.secret, info, length)


# ---- section 5.2 ------------------------------------------------------------------------------


def nonce(params, common_iv, piv_sender_id, piv):
    nlen = ALGS[params.alg][3]
    if len(piv_sender_id) > nlen - 6 or not 1 <= len(piv) <= 5:
        raise RefError("ID or Partial IV length not admissible for the algorithm")
    padded = bytes([len(piv_sender_id)]) + piv_sender_id.rjust(nlen - 6, b"\0") + piv.rjust(5, b"\0")
    assert len(padded) == nlen == len(common_iv)
    return bytes(a ^ b for a, b in zip(padded, common_iv))


# ---- section 5.4 ------------------------------------------------------------------------------


def aad(params, request_kid, request_piv):
    external = cbor([1, [ALGS[params.alg][0]], request_kid, request_piv, b""])
    return cbor(["Encrypt0", b"", external])


# ---- section 6.1 ------------------------------------------------------------------------------

Opt = namedtuple("Opt", "piv kid_context kid trailing flag")


def parse_option(v, group=False):
    """-> Opt, or raises RefError for what RFC 8613 section 6.1 makes undecodable: reserved flag
    bits (the three most significant bits), n = 6 or 7, a field running past the end; and
    NonCanonical (a RefError) for a value that is not *the* encoding of its fields:
    * section 6.1: "If the OSCORE flag bits are all zero (0x00), the option value SHALL be empty
      (Option Length = 0)" - a non-empty value that starts with 0x00 ("zero-flag-byte");
    * section 5 ('Partial IV'): "All leading bytes of value zero SHALL be removed when encoding the
      Partial IV, except in the case of the value 0, which is encoded to the byte string 0x00" - a
      Partial IV of more than one byte that starts with 0x00 ("piv-leading-zero-bytes");
    * section 6.1 lays the value out as flag byte, n bytes of Partial IV, s and kid context (if h),
      and "the remaining bytes encode the value of the kid, if the kid is present (k = 1)": with
      k = 0 there is no field left that further bytes could belong to ("trailing-bytes-without-kid-flag").
    group=True: the sixth least significant bit is the Group Flag of Group OSCORE (section 4.1 of
    the draft) and only the two most significant bits are reserved; it is reported in Opt.flag."""
    v = bytes(v)
    if v == b"":
        return Opt(None, None, None, b"", 0)
    f = v[0]
    if f & (0xC0 if group else 0xE0):
        raise RefError("reserved flag bits set")
    if f == 0:
        raise NonCanonical("zero-flag-byte", "all flag bits zero in a non-empty option value")
    n, k, h = f & 7, (f >> 3) & 1, (f >> 4) & 1
    if n > 5:
        raise RefError("n = 6 and 7 are reserved")
    pos = 1
    piv = None
    if n:
        if len(v) < pos + n:
            raise RefError("Partial IV truncated")
        piv = v[pos : pos + n]
        pos += n
    kc = None
    if h:
        if len(v) < pos + 1:
            raise RefError("kid context length byte missing")
        s = v[pos]
        pos += 1
        if len(v) < pos + s:
            raise RefError("kid context truncated")
        kc = v[pos : pos + s]
        pos += s
    if piv is not None and len(piv) > 1 and piv[0] == 0:
        raise NonCanonical("piv-leading-zero-bytes", "Partial IV encoded with leading zero bytes")
    kid = None
    if k:
        kid = v[pos:]
    elif v[pos:]:
        raise NonCanonical("trailing-bytes-without-kid-flag", "bytes after the last announced field although k = 0")
    return Opt(piv, kc, kid, b"", f)


def build_option(piv=None, kid_context=None, kid=None, flag_or=0, n=None):
    """Compose an option value (also lets a test set inconsistent n / extra flag bits)."""
    f = (len(piv) if piv else 0) if n is None else n
    out = piv or b""
    if kid_context is not None:
        f |= 0x10
        out += bytes([len(kid_context)]) + kid_context
    if kid is not None:
        f |= 0x08
        out += kid
    f |= flag_or
    if f == 0 and not out:
        return b""
    return bytes([f & 0xFF]) + out


# ---- AEAD -------------------------------------------------------------------------------------


def _aead(alg, key):
    from cryptography.hazmat.primitives.ciphers import aead

    if alg.startswith("AES-CCM"):
        return aead.AESCCM(key, ALGS[alg][2])
    if alg.endswith("GCM"):
        return aead.AESGCM(key)
    return aead.ChaCha20Poly1305(key)


def open_(params, sender_id, piv_sender_id, piv, request_kid, request_piv, ciphertext):
    """Decrypt as the RFC prescribes. sender_id: whose Sender Key protected the message;
    (piv_sender_id, piv): the nonce inputs; (request_kid, request_piv): the AAD inputs.
    Returns the plaintext or None when the tag does not verify."""
    import cryptography.exceptions

    key = derive(params, sender_id, "Key")
    civ = derive(params, b"", "IV")
    nn = nonce(params, civ, piv_sender_id, piv)
    try:
        return _aead(params.alg, key).decrypt(nn, ciphertext, aad(params, request_kid, request_piv))
    except cryptography.exceptions.InvalidTag:
        return None


def seal(params, sender_id, piv_sender_id, piv, request_kid, request_piv, plaintext):
    key = derive(params, sender_id, "Key")
    civ = derive(params, b"", "IV")
    nn = nonce(params, civ, piv_sender_id, piv)
    return _aead(params.alg, key).encrypt(nn, plaintext, aad(params, request_kid, request_piv))


# ---- section 5.3 ------------------------------------------------------------------------------


def split_plaintext(pt):
    """-> (code, ((number, raw), ...), payload) using the independent RFC 7252 option parser."""
    from harness import refcodec as rc

    if not pt:
        raise RefError("empty plaintext")
    m = rc.parse(b"\x40\x01\x00\x00" + pt[1:])
    return pt[0], m.options, m.payload


def selftest():
    h = bytes.fromhex
    p = Params("AES-CCM-16-64-128", "sha256", h("0102030405060708090a0b0c0d0e0f10"), h("9e7ca92223786340"), None)
    # C.1.1 client: sender ID empty, recipient ID 01
    assert derive(p, b"", "Key") == h("f0910ed7295e6ad4b54fc793154302ff")
    assert derive(p, b"\x01", "Key") == h("ffb14e093c94c9cac9471648b4f98710")
    civ = derive(p, b"", "IV")
    assert civ == h("4622d4dd6d944168eefb54987c")
    assert nonce(p, civ, b"", b"\0") == h("4622d4dd6d944168eefb54987c")
    assert nonce(p, civ, b"\x01", b"\0") == h("4722d4dd6d944169eefb54987c")
    # C.3.1 with ID context
    p3 = p._replace(id_context=h("37cbf3210017a2d3"))
    assert derive(p3, b"", "Key") == h("af2a1300a5e95788b356336eeecd2b92")
    assert derive(p3, b"", "IV") == h("2ca58fb85ff1b81c0b7181b85e")
    # C.4 request: option 09 14, ciphertext
    o = parse_option(h("0914"))
    assert o == Opt(b"\x14", None, b"", b"", 9)
    assert aad(p, b"", b"\x14") == h("8368456e63727970743040488501810a40411440")
    pt = open_(p, b"", b"", b"\x14", b"", b"\x14", h("612f1092f1776f1c1668b3825e"))
    assert pt == h("01b3747631"), pt
    assert split_plaintext(pt) == (1, ((11, b"tv1"),), b"")
    assert seal(p, b"", b"", b"\x14", b"", b"\x14", pt) == h("612f1092f1776f1c1668b3825e")
    # C.7 response without Partial IV (server sender ID 01, request kid empty / piv 14)
    pt = open_(p, b"\x01", b"", b"\x14", b"", b"\x14", h("dbaad1e9a7e7b2a813d3c31524378303cdafae119106"))
    assert pt is not None and split_plaintext(pt) == (0x45, (), b"Hello World!"), pt
    # C.8 response with Partial IV 00
    assert parse_option(h("0100")) == Opt(b"\0", None, None, b"", 1)
    pt = open_(p, b"\x01", b"\x01", b"\0", b"", b"\x14", h("4d4c13669384b67354b2b6175ff4b8658c666a6cf88e"))
    assert pt is not None and split_plaintext(pt) == (0x45, (), b"Hello World!"), pt
    # option parser: RFC 8613 section 6.3 examples and malformed inputs
    assert parse_option(h("1905054461" + "6c656b" + "25")) == Opt(b"\x05", b"Dalek", b"\x25", b"", 0x19)
    for bad in ("20", "40", "80", "0600", "07", "01", "10", "1003aa", "1905"):
        try:
            parse_option(h(bad))
        except NonCanonical:
            raise AssertionError("malformed option taken as merely non-canonical " + bad)
        except RefError:
            continue
        raise AssertionError("accepted malformed option " + bad)
    for bad, kind in (("00", "zero-flag-byte"), ("00aabb", "zero-flag-byte"), ("020005", "piv-leading-zero-bytes"), ("050000000005", "piv-leading-zero-bytes"),
                      ("0a000525", "piv-leading-zero-bytes"), ("0105aa", "trailing-bytes-without-kid-flag"), ("110501aa00", "trailing-bytes-without-kid-flag"), ("1000aa", "trailing-bytes-without-kid-flag")):
        try:
            parse_option(h(bad))
        except NonCanonical as e:
            assert e.kind == kind, (bad, e.kind)
            continue
        raise AssertionError("accepted non-canonical option " + bad)
    assert parse_option(h("0100")) == Opt(b"\0", None, None, b"", 1) and parse_option(h("020100")).piv == b"\x01\0" and parse_option(h("08")).kid == b""
    assert build_option(b"\x05", b"Dalek", b"\x25") == h("19050544616c656b25")
    assert build_option() == b""
    return True


# ==== Group OSCORE (draft-ietf-core-oscore-groupcomm) ============================================

#: encryption algorithms usable as AEAD Algorithm / Group Encryption Algorithm; A128CBC (RFC 9459) only as the latter
ENC_ALGS = dict(ALGS)
ENC_ALGS["A128CBC"] = (-65531, 16, 0, 16)
#: Signature Algorithm -> (COSE value, signature bytes, COSE key type, COSE curve)
SIGN_ALGS = {"EdDSA": (-8, 64, 1, 6), "ES256": (-7, 64, 2, 1)}
ECDH_SS_HKDF_256 = -27
GROUP_FLAG = 0x20
P25519 = 2**255 - 19
P256_ORDER = 0xFFFFFFFF00000000FFFFFFFFFFFFFFFFBCE6FAADA7179E84F3B9CAC2FC632551

#: alg_group_enc / alg_sign may be None (a pairwise-only group); gm_cred, group_id are byte strings
GroupParams = namedtuple("GroupParams", "alg_aead alg_group_enc alg_sign hashname secret salt group_id gm_cred")


def _val(table, name):
    return None if name is None else table[name][0]


def g_main_alg(gp):
    """'alg_aead' of the key derivation info: the Group Encryption Algorithm if set, else the AEAD Algorithm."""
    return gp.alg_group_enc if gp.alg_group_enc is not None else gp.alg_aead


def g_kdf(gp, salt, ikm, ident, algvalue, typ, length):
    return hkdf(gp.hashname, salt, ikm, cbor([ident, gp.group_id, algvalue, typ, length]), length)


def g_sender_key(gp, ident):
    v, klen, _t, _n = ENC_ALGS[g_main_alg(gp)]
    return g_kdf(gp, gp.salt, gp.secret, ident, v, "Key", klen)


def g_common_iv(gp):
    v = ENC_ALGS[g_main_alg(gp)][0]
    n = max(ENC_ALGS[a][3] for a in (gp.alg_aead, gp.alg_group_enc) if a is not None)
    return g_kdf(gp, gp.salt, gp.secret, b"", v, "IV", n)


def g_sekey(gp):
    v, klen, _t, _n = ENC_ALGS[gp.alg_group_enc]
    return g_kdf(gp, gp.salt, gp.secret, b"", v, "SEKey", klen)


def g_nonce(gp, algname, piv_sender_id, piv):
    """RFC 8613 section 5.2 with the nonce length of `algname`; of a longer Common IV the leftmost bytes are used."""
    nlen = ENC_ALGS[algname][3]
    if len(piv_sender_id) > nlen - 6 or not 1 <= len(piv) <= 5:
        raise RefError("ID or Partial IV length not admissible for the algorithm")
    padded = bytes([len(piv_sender_id)]) + piv_sender_id.rjust(nlen - 6, b"\0") + piv.rjust(5, b"\0")
    civ = g_common_iv(gp)[:nlen]
    return bytes(a ^ b for a, b in zip(padded, civ))


def g_external_aad(gp, pairwise_value, request_kid, request_piv, oscore_option, sender_cred, class_i=b""):
    algs = [_val(ENC_ALGS, gp.alg_aead), _val(ENC_ALGS, gp.alg_group_enc), _val(SIGN_ALGS, gp.alg_sign), pairwise_value]
    return cbor([1, algs, request_kid, request_piv, class_i, gp.group_id, oscore_option, sender_cred, gp.gm_cred])


def g_keystream(gp, piv_generator_id, piv, is_request, length):
    return hkdf(gp.hashname, piv, g_sekey(gp), cbor([piv_generator_id, gp.group_id, bool(is_request), length]), length)


def _cbc(key, iv):
    from cryptography.hazmat.primitives.ciphers import Cipher, algorithms, modes

    return Cipher(algorithms.AES(key), modes.CBC(iv))


def g_encrypt(algname, key, nn, aad_, pt):
    if algname == "A128CBC":  # RFC 9459: no authentication; RFC 5652 section 6.3 padding
        pad = 16 - len(pt) % 16
        e = _cbc(key, nn).encryptor()
        return e.update(pt + bytes([pad]) * pad) + e.finalize()
    return _aead(algname, key).encrypt(nn, pt, aad_)


def g_decrypt(algname, key, nn, aad_, ct):
    """-> plaintext or None"""
    import cryptography.exceptions

    if algname == "A128CBC":
        if not ct or len(ct) % 16:
            return None
        d = _cbc(key, nn).decryptor()
        pt = d.update(ct) + d.finalize()
        pad = pt[-1]
        if not 1 <= pad <= 16 or pt[-pad:] != bytes([pad]) * pad:
            return None
        return pt[:-pad]
    try:
        return _aead(algname, key).decrypt(nn, ct, aad_)
    except cryptography.exceptions.InvalidTag:
        return None


# ---- keys and credentials: EdDSA keys are raw 32-byte strings, ES256 private keys integers, public keys (x, y) ----


def g_public(alg_sign, private):
    from cryptography.hazmat.primitives.asymmetric import ed25519, ec
    from cryptography.hazmat.primitives import serialization as s

    if alg_sign == "EdDSA":
        return ed25519.Ed25519PrivateKey.from_private_bytes(private).public_key().public_bytes(encoding=s.Encoding.Raw, format=s.PublicFormat.Raw)
    n = ec.derive_private_key(private, ec.SECP256R1()).public_key().public_numbers()
    return (n.x, n.y)


def g_ccs(alg_sign, public, subject=None):
    """A CWT Claims Set (RFC 8392 / RFC 9528 kccs) with the public key as COSE_Key in cnf."""
    value, _siglen, kty, crv = SIGN_ALGS[alg_sign]
    if alg_sign == "EdDSA":
        key = {1: kty, 3: value, -1: crv, -2: public}
    else:
        key = {1: kty, 3: value, -1: crv, -2: public[0].to_bytes(32, "big"), -3: public[1].to_bytes(32, "big")}
    claims = {}
    if subject is not None:
        claims[2] = subject
    claims[8] = {1: key}
    return cbor(claims)


def _p256_private(d):
    from cryptography.hazmat.primitives.asymmetric import ec

    return ec.derive_private_key(d, ec.SECP256R1())


def _p256_public(xy):
    from cryptography.hazmat.primitives.asymmetric import ec

    return ec.EllipticCurvePublicNumbers(xy[0], xy[1], ec.SECP256R1()).public_key()


def g_sign(alg_sign, private, tbs):
    from cryptography.hazmat.primitives.asymmetric import ed25519, ec, utils
    from cryptography.hazmat.primitives import hashes

    if alg_sign == "EdDSA":
        return ed25519.Ed25519PrivateKey.from_private_bytes(private).sign(tbs)
    r, s_ = utils.decode_dss_signature(_p256_private(private).sign(tbs, ec.ECDSA(hashes.SHA256())))
    return r.to_bytes(32, "big") + s_.to_bytes(32, "big")


def g_verify(alg_sign, public, signature, tbs):
    from cryptography.hazmat.primitives.asymmetric import ed25519, ec, utils
    from cryptography.hazmat.primitives import hashes
    import cryptography.exceptions

    try:
        if alg_sign == "EdDSA":
            ed25519.Ed25519PublicKey.from_public_bytes(public).verify(signature, tbs)
        else:
            der = utils.encode_dss_signature(int.from_bytes(signature[:32], "big"), int.from_bytes(signature[32:], "big"))
            _p256_public(public).verify(der, tbs, ec.ECDSA(hashes.SHA256()))
    except (cryptography.exceptions.InvalidSignature, ValueError):
        return False
    return True


def ed_private_to_x25519(private):
    h = bytearray(hashlib.sha512(private).digest()[:32])
    h[0] &= 248
    h[31] &= 127
    h[31] |= 64
    return bytes(h)


def ed_public_to_x25519(public):
    """Birational map Edwards -> Montgomery, u = (1 + y) / (1 - y) (RFC 7748 section 4.1)."""
    y = int.from_bytes(public, "little") & ((1 << 255) - 1)
    u = (1 + y) * pow((1 - y) % P25519, P25519 - 2, P25519) % P25519
    return u.to_bytes(32, "little")


def g_shared_secret(alg_sign, own_private, peer_public):
    """Static-static Diffie-Hellman secret of the pairwise mode (section 2.5.1): X25519 on the converted
    keys for EdDSA/Ed25519 groups, ECDH on P-256 (x coordinate) for ES256 groups."""
    from cryptography.hazmat.primitives.asymmetric import x25519, ec

    if alg_sign == "EdDSA":
        return x25519.X25519PrivateKey.from_private_bytes(ed_private_to_x25519(own_private)).exchange(x25519.X25519PublicKey.from_public_bytes(ed_public_to_x25519(peer_public)))
    return _p256_private(own_private).exchange(ec.ECDH(), _p256_public(peer_public))


def g_pairwise_key(gp, sender_id, sender_cred, recipient_cred, shared):
    """Pairwise key with which `sender_id` protects for the recipient: HKDF(Sender Key, sender cred | recipient cred | secret)."""
    v, klen, _t, _n = ENC_ALGS[gp.alg_aead]
    return g_kdf(gp, g_sender_key(gp, sender_id), sender_cred + recipient_cred + shared, sender_id, v, "Key", klen)


def _countersign_structure(eaad, ciphertext):
    return cbor(["CounterSignature0", b"", b"", eaad, ciphertext])


def g_open_group(gp, pairwise_value, is_request, sender_id, sender_cred, sender_public, piv_sender_id, piv, request_kid, request_piv, oscore_option, payload, class_i=b""):
    """Group mode. -> (plaintext | None, reason)"""
    siglen = SIGN_ALGS[gp.alg_sign][1]
    if len(payload) < siglen + 1:
        return None, "too short for a countersignature"
    ct, encsig = payload[:-siglen], payload[-siglen:]
    eaad = g_external_aad(gp, pairwise_value, request_kid, request_piv, oscore_option, sender_cred, class_i)
    ks = g_keystream(gp, piv_sender_id, piv, is_request, siglen)
    sig = bytes(a ^ b for a, b in zip(encsig, ks))
    if not g_verify(gp.alg_sign, sender_public, sig, _countersign_structure(eaad, ct)):
        return None, "countersignature does not verify"
    pt = g_decrypt(gp.alg_group_enc, g_sender_key(gp, sender_id), g_nonce(gp, gp.alg_group_enc, piv_sender_id, piv), cbor(["Encrypt0", b"", eaad]), ct)
    return pt, ("ok" if pt is not None else "ciphertext does not decrypt")


def g_seal_group(gp, pairwise_value, is_request, sender_id, sender_cred, sender_private, piv_sender_id, piv, request_kid, request_piv, oscore_option, plaintext, class_i=b""):
    siglen = SIGN_ALGS[gp.alg_sign][1]
    eaad = g_external_aad(gp, pairwise_value, request_kid, request_piv, oscore_option, sender_cred, class_i)
    ct = g_encrypt(gp.alg_group_enc, g_sender_key(gp, sender_id), g_nonce(gp, gp.alg_group_enc, piv_sender_id, piv), cbor(["Encrypt0", b"", eaad]), plaintext)
    sig = g_sign(gp.alg_sign, sender_private, _countersign_structure(eaad, ct))
    ks = g_keystream(gp, piv_sender_id, piv, is_request, siglen)
    return ct + bytes(a ^ b for a, b in zip(sig, ks))


def g_open_pairwise(gp, pairwise_value, sender_id, sender_cred, recipient_cred, shared, piv_sender_id, piv, request_kid, request_piv, oscore_option, payload, class_i=b""):
    """Pairwise mode. -> (plaintext | None, reason)"""
    eaad = g_external_aad(gp, pairwise_value, request_kid, request_piv, oscore_option, sender_cred, class_i)
    key = g_pairwise_key(gp, sender_id, sender_cred, recipient_cred, shared)
    pt = g_decrypt(gp.alg_aead, key, g_nonce(gp, gp.alg_aead, piv_sender_id, piv), cbor(["Encrypt0", b"", eaad]), payload)
    return pt, ("ok" if pt is not None else "ciphertext does not decrypt")


def g_seal_pairwise(gp, pairwise_value, sender_id, sender_cred, recipient_cred, shared, piv_sender_id, piv, request_kid, request_piv, oscore_option, plaintext, class_i=b""):
    eaad = g_external_aad(gp, pairwise_value, request_kid, request_piv, oscore_option, sender_cred, class_i)
    key = g_pairwise_key(gp, sender_id, sender_cred, recipient_cred, shared)
    return g_encrypt(gp.alg_aead, key, g_nonce(gp, gp.alg_aead, piv_sender_id, piv), cbor(["Encrypt0", b"", eaad]), plaintext)


# ---- deterministic requests (draft-amsuess-core-cachable-oscore; experimental in aiocoap) ---------------------


def class_i_request_hash(request_hash):
    """The Request-Hash option (548) as the serialised Class I option list of the external_aad."""
    from harness import refcodec as rc

    return rc.encode(rc.Msg(0, 0, 0, b"", ((548, request_hash),), b""))[4:]


def g_det_key(gp, det_id, request_hash):
    v, klen, _t, _n = ENC_ALGS[gp.alg_aead]
    return g_kdf(gp, g_sender_key(gp, det_id), request_hash, det_id, v, "Key", klen)


def g_det_request_hash(gp, eaad, plaintext, det_id):
    return hashlib.sha256(g_sender_key(gp, det_id) + eaad + plaintext).digest()


def g_open_deterministic(gp, pairwise_value, det_id, piv, oscore_option, request_hash, payload):
    """A deterministic request: sender credential empty, key derived from the deterministic client's
    Sender Key and the Request-Hash, which must be the hash of (that key | external_aad | plaintext)."""
    eaad = g_external_aad(gp, pairwise_value, det_id, piv, oscore_option, b"")
    pt = g_decrypt(gp.alg_aead, g_det_key(gp, det_id, request_hash), g_nonce(gp, gp.alg_aead, det_id, piv), cbor(["Encrypt0", b"", eaad]), payload)
    if pt is None:
        return None, "ciphertext does not decrypt"
    if g_det_request_hash(gp, eaad, pt, det_id) != request_hash:
        return None, "Request-Hash is not the hash of key | external_aad | plaintext"
    return pt, "ok"


def g_seal_deterministic(gp, pairwise_value, det_id, piv, oscore_option, plaintext):
    eaad = g_external_aad(gp, pairwise_value, det_id, piv, oscore_option, b"")
    h = g_det_request_hash(gp, eaad, plaintext, det_id)
    return h, g_encrypt(gp.alg_aead, g_det_key(gp, det_id, h), g_nonce(gp, gp.alg_aead, det_id, piv), cbor(["Encrypt0", b"", eaad]), plaintext)


def g_selftest(sign_algs=("EdDSA", "ES256")):
    """Internal consistency of the group part (no published vectors exist): key conversion identity,
    symmetric shared secrets, seal/open round trips and their sensitivity to each bound input."""
    from cryptography.hazmat.primitives.asymmetric import x25519
    from cryptography.hazmat.primitives import serialization as s

    h = hashlib.sha256
    for i in range(3):
        priv = h(b"c11ref-ed-%d" % i).digest()
        pub = g_public("EdDSA", priv)
        xpub = x25519.X25519PrivateKey.from_private_bytes(ed_private_to_x25519(priv)).public_key().public_bytes(encoding=s.Encoding.Raw, format=s.PublicFormat.Raw)
        assert ed_public_to_x25519(pub) == xpub, "Ed25519 -> X25519 conversion"
    assert cbor({1: 1, -1: 6}) == bytes.fromhex("a201012006") and cbor([True, False, None, -27]) == bytes.fromhex("84f5f4f6381a")
    assert parse_option(bytes.fromhex("39050147" + "01"), group=True) == Opt(b"\x05", b"G", b"\x01", b"", 0x39)
    for alg_sign in sign_algs:
        for genc in ("AES-CCM-16-64-128", "A128CBC", "A128GCM"):
            gp = GroupParams("AES-CCM-16-64-128", genc, alg_sign, "sha256", b"\x01" * 16, b"salt", b"G", b"gm")
            if alg_sign == "EdDSA":
                pa, pb = h(b"a").digest(), h(b"b").digest()
            else:
                pa, pb = int.from_bytes(h(b"a").digest(), "big") % (P256_ORDER - 1) + 1, int.from_bytes(h(b"b").digest(), "big") % (P256_ORDER - 1) + 1
            qa, qb = g_public(alg_sign, pa), g_public(alg_sign, pb)
            ca, cb = g_ccs(alg_sign, qa), g_ccs(alg_sign, qb, subject="b")
            sab, sba = g_shared_secret(alg_sign, pa, qb), g_shared_secret(alg_sign, pb, qa)
            assert sab == sba and len(sab) == 32, "static-static secret not symmetric"
            optv = bytes([0x39, 5, 1]) + b"G" + b"\x0a"
            pt = b"\x01\xb3tv1"
            sealed = g_seal_group(gp, ECDH_SS_HKDF_256, True, b"\x0a", ca, pa, b"\x0a", b"\x05", b"\x0a", b"\x05", optv, pt)
            ok = lambda **kw: g_open_group(**dict(dict(gp=gp, pairwise_value=ECDH_SS_HKDF_256, is_request=True, sender_id=b"\x0a", sender_cred=ca, sender_public=qa, piv_sender_id=b"\x0a", piv=b"\x05", request_kid=b"\x0a", request_piv=b"\x05", oscore_option=optv, payload=sealed), **kw))[0]
            assert ok() == pt
            assert ok(sender_public=qb) is None and ok(request_piv=b"\x06") is None and ok(request_kid=b"\x0b") is None and ok(oscore_option=optv[:-1] + b"\x0b") is None
            assert ok(is_request=False) is None and ok(sender_cred=cb) is None and ok(gp=gp._replace(gm_cred=b"other")) is None and ok(gp=gp._replace(group_id=b"H")) is None
            assert ok(payload=sealed[:-1] + bytes([sealed[-1] ^ 1])) is None and ok(payload=bytes([sealed[0] ^ 1]) + sealed[1:]) is None
            optp = bytes([0x19, 5, 1]) + b"G" + b"\x0a"
            sealed = g_seal_pairwise(gp, ECDH_SS_HKDF_256, b"\x0a", ca, cb, sab, b"\x0a", b"\x05", b"\x0a", b"\x05", optp, pt)
            okp = lambda **kw: g_open_pairwise(**dict(dict(gp=gp, pairwise_value=ECDH_SS_HKDF_256, sender_id=b"\x0a", sender_cred=ca, recipient_cred=cb, shared=sba, piv_sender_id=b"\x0a", piv=b"\x05", request_kid=b"\x0a", request_piv=b"\x05", oscore_option=optp, payload=sealed), **kw))[0]
            assert okp() == pt
            assert okp(shared=b"\0" * 32) is None and okp(recipient_cred=ca) is None and okp(request_piv=b"\x06") is None and okp(oscore_option=optv) is None and okp(sender_id=b"\x0b") is None
            optd = bytes([0x19, 0, 1]) + b"G" + b"\xdd"
            hh, sealed = g_seal_deterministic(gp, ECDH_SS_HKDF_256, b"\xdd", b"\0", optd, pt)
            assert g_open_deterministic(gp, ECDH_SS_HKDF_256, b"\xdd", b"\0", optd, hh, sealed)[0] == pt
            assert g_open_deterministic(gp, ECDH_SS_HKDF_256, b"\xdd", b"\0", optd, bytes([hh[0] ^ 1]) + hh[1:], sealed)[0] is None
    assert class_i_request_hash(b"\x11" * 32) == bytes.fromhex("ed011713") + b"\x11" * 32
    return True
