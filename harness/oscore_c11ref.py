"""Independent reading of RFC 8613 for check C11 (imports nothing from aiocoap).

* section 3.2.1  key / Common IV derivation (HKDF from hashlib/hmac, own CBOR encoder)
* section 5.2    AEAD nonce
* section 5.4    external_aad / AAD (Enc_structure of RFC 8152 section 5.3)
* section 6.1    compressed OSCORE option (flag byte n/k/h, Partial IV, s + kid context, kid)
* section 5.3    plaintext layout (code, Class E options, 0xFF, payload)

The only thing shared with the code under test is the `cryptography` AEAD primitives (a
third-party dependency, not code under test).  `selftest()` runs the RFC 8613 Appendix C
vectors C.1.1, C.4, C.7 and C.8 through this module.
"""

import hashlib
import hmac
from collections import namedtuple

# COSE algorithm registry (RFC 9053 tables 5-7): name -> (value, key bytes, tag bytes, nonce bytes)
ALGS = {
    "AES-CCM-16-64-128": (10, 16, 8, 13),
    "AES-CCM-16-64-256": (11, 32, 8, 13),
    "AES-CCM-64-64-128": (12, 16, 8, 7),
    "AES-CCM-64-64-256": (13, 32, 8, 7),
    "AES-CCM-16-128-128": (30, 16, 16, 13),
    "AES-CCM-16-128-256": (31, 32, 16, 13),
    "AES-CCM-64-128-128": (32, 16, 16, 7),
    "AES-CCM-64-128-256": (33, 32, 16, 7),
    "A128GCM": (1, 16, 16, 12),
    "A192GCM": (2, 24, 16, 12),
    "A256GCM": (3, 32, 16, 12),
    "ChaCha20/Poly1305": (24, 32, 16, 12),
}
HASHES = {"sha256": hashlib.sha256, "sha384": hashlib.sha384, "sha512": hashlib.sha512}


class RefError(Exception):
    """The reference cannot process the input (malformed per RFC 8613)."""


# ---- minimal CBOR (RFC 8949 preferred serialisation) for the fixed structures used here -----


def _head(major, n):
    if n < 24:
        return bytes([(major << 5) | n])
    for bits, ai in ((8, 24), (16, 25), (32, 26), (64, 27)):
        if n < (1 << bits):
            return bytes([(major << 5) | ai]) + n.to_bytes(bits // 8, "big")
    raise ValueError(n)


def cbor(x):
    if x is None:
        return b"\xf6"
    if x is True:
        return b"\xf5"
    if x is False:
        return b"\xf4"
    if isinstance(x, int):
        return _head(0, x) if x >= 0 else _head(1, -1 - x)
    if isinstance(x, bytes):
        return _head(2, len(x)) + x
    if isinstance(x, str):
        b = x.encode("utf8")
        return _head(3, len(b)) + b
    if isinstance(x, (list, tuple)):
        return _head(4, len(x)) + b"".join(cbor(i) for i in x)
    raise TypeError(type(x))


# ---- section 3.2.1 ----------------------------------------------------------------------------


def hkdf(hashname, salt, ikm, info, length):
    h = HASHES[hashname]
    if not salt:
        salt = b"\0" * h().digest_size
    prk = hmac.new(salt, ikm, h).digest()
    out = b""
    t = b""
    i = 1
    while len(out) < length:
        t = hmac.new(prk, t + info + bytes([i]), h).digest()
        out += t
        i += 1
    return out[:length]


Params = namedtuple("Params", "alg hashname secret salt id_context")


def derive(params, ident, typ):
    """typ 'Key' (ident = sender/recipient ID) or 'IV' (ident ignored, empty)."""
    value, klen, _tag, nlen = ALGS[params.alg]
    length = klen if typ == "Key" else nlen
    info = cbor([ident if typ == "Key" else b"", params.id_context, value, typ, length])
    return hkdf(params.hashname, params.salt, params.secret, info, length)


# ---- section 5.2 ------------------------------------------------------------------------------


def nonce(params, common_iv, piv_sender_id, piv):
    nlen = ALGS[params.alg][3]
    if len(piv_sender_id) > nlen - 6 or not 1 <= len(piv) <= 5:
        raise RefError("ID or Partial IV length not admissible for the algorithm")
    padded = bytes([len(piv_sender_id)]) + piv_sender_id.rjust(nlen - 6, b"\0") + piv.rjust(5, b"\0")
    assert len(padded) == nlen == len(common_iv)
    return bytes(a ^ b for a, b in zip(padded, common_iv))


# ---- section 5.4 ------------------------------------------------------------------------------


def aad(params, request_kid, request_piv):
    external = cbor([1, [ALGS[params.alg][0]], request_kid, request_piv, b""])
    return cbor(["Encrypt0", b"", external])


# ---- section 6.1 ------------------------------------------------------------------------------

Opt = namedtuple("Opt", "piv kid_context kid trailing flag")


def parse_option(v):
    """-> Opt, or raises RefError for what RFC 8613 section 6.1 makes undecodable: reserved flag
    bits (the three most significant bits), n = 6 or 7, a field running past the end."""
    v = bytes(v)
    if v == b"":
        return Opt(None, None, None, b"", 0)
    f = v[0]
    if f & 0xE0:
        raise RefError("reserved flag bits set")
    n, k, h = f & 7, (f >> 3) & 1, (f >> 4) & 1
    if n > 5:
        raise RefError("n = 6 and 7 are reserved")
    pos = 1
    piv = None
    if n:
        if len(v) < pos + n:
            raise RefError("Partial IV truncated")
        piv = v[pos : pos + n]
        pos += n
    kc = None
    if h:
        if len(v) < pos + 1:
            raise RefError("kid context length byte missing")
        s = v[pos]
        pos += 1
        if len(v) < pos + s:
            raise RefError("kid context truncated")
        kc = v[pos : pos + s]
        pos += s
    kid = None
    trailing = b""
    if k:
        kid = v[pos:]
    else:
        trailing = v[pos:]
    return Opt(piv, kc, kid, trailing, f)


def build_option(piv=None, kid_context=None, kid=None, flag_or=0, n=None):
    """Compose an option value (also lets a test set inconsistent n / extra flag bits)."""
    f = (len(piv) if piv else 0) if n is None else n
    out = piv or b""
    if kid_context is not None:
        f |= 0x10
        out += bytes([len(kid_context)]) + kid_context
    if kid is not None:
        f |= 0x08
        out += kid
    f |= flag_or
    if f == 0 and not out:
        return b""
    return bytes([f & 0xFF]) + out


# ---- AEAD -------------------------------------------------------------------------------------


def _aead(alg, key):
    from cryptography.hazmat.primitives.ciphers import aead

    if alg.startswith("AES-CCM"):
        return aead.AESCCM(key, ALGS[alg][2])
    if alg.endswith("GCM"):
        return aead.AESGCM(key)
    return aead.ChaCha20Poly1305(key)


def open_(params, sender_id, piv_sender_id, piv, request_kid, request_piv, ciphertext):
    """Decrypt as the RFC prescribes. sender_id: whose Sender Key protected the message;
    (piv_sender_id, piv): the nonce inputs; (request_kid, request_piv): the AAD inputs.
    Returns the plaintext or None when the tag does not verify."""
    import cryptography.exceptions

    key = derive(params, sender_id, "Key")
    civ = derive(params, b"", "IV")
    nn = nonce(params, civ, piv_sender_id, piv)
    try:
        return _aead(params.alg, key).decrypt(nn, ciphertext, aad(params, request_kid, request_piv))
    except cryptography.exceptions.InvalidTag:
        return None


def seal(params, sender_id, piv_sender_id, piv, request_kid, request_piv, plaintext):
    key = derive(params, sender_id, "Key")
    civ = derive(params, b"", "IV")
    nn = nonce(params, civ, piv_sender_id, piv)
    return _aead(params.alg, key).encrypt(nn, plaintext, aad(params, request_kid, request_piv))


# ---- section 5.3 ------------------------------------------------------------------------------


def split_plaintext(pt):
    """-> (code, ((number, raw), ...), payload) using the independent RFC 7252 option parser."""
    from harness import refcodec as rc

    if not pt:
        raise RefError("empty plaintext")
    m = rc.parse(b"\x40\x01\x00\x00" + pt[1:])
    return pt[0], m.options, m.payload


def selftest():
    h = bytes.fromhex
    p = Params("AES-CCM-16-64-128", "sha256", h("0102030405060708090a0b0c0d0e0f10"), h("9e7ca92223786340"), None)
    # C.1.1 client: sender ID empty, recipient ID 01
    assert derive(p, b"", "Key") == h("f0910ed7295e6ad4b54fc793154302ff")
    assert derive(p, b"\x01", "Key") == h("ffb14e093c94c9cac9471648b4f98710")
    civ = derive(p, b"", "IV")
    assert civ == h("4622d4dd6d944168eefb54987c")
    assert nonce(p, civ, b"", b"\0") == h("4622d4dd6d944168eefb54987c")
    assert nonce(p, civ, b"\x01", b"\0") == h("4722d4dd6d944169eefb54987c")
    # C.3.1 with ID context
    p3 = p._replace(id_context=h("37cbf3210017a2d3"))
    assert derive(p3, b"", "Key") == h("af2a1300a5e95788b356336eeecd2b92")
    assert derive(p3, b"", "IV") == h("2ca58fb85ff1b81c0b7181b85e")
    # C.4 request: option 09 14, ciphertext
    o = parse_option(h("0914"))
    assert o == Opt(b"\x14", None, b"", b"", 9)
    assert aad(p, b"", b"\x14") == h("8368456e63727970743040488501810a40411440")
    pt = open_(p, b"", b"", b"\x14", b"", b"\x14", h("612f1092f1776f1c1668b3825e"))
    assert pt == h("01b3747631"), pt
    assert split_plaintext(pt) == (1, ((11, b"tv1"),), b"")
    assert seal(p, b"", b"", b"\x14", b"", b"\x14", pt) == h("612f1092f1776f1c1668b3825e")
    # C.7 response without Partial IV (server sender ID 01, request kid empty / piv 14)
    pt = open_(p, b"\x01", b"", b"\x14", b"", b"\x14", h("dbaad1e9a7e7b2a813d3c31524378303cdafae119106"))
    assert pt is not None and split_plaintext(pt) == (0x45, (), b"Hello World!"), pt
    # C.8 response with Partial IV 00
    assert parse_option(h("0100")) == Opt(b"\0", None, None, b"", 1)
    pt = open_(p, b"\x01", b"\x01", b"\0", b"", b"\x14", h("4d4c13669384b67354b2b6175ff4b8658c666a6cf88e"))
    assert pt is not None and split_plaintext(pt) == (0x45, (), b"Hello World!"), pt
    # option parser: RFC 8613 section 6.3 examples and malformed inputs
    assert parse_option(h("1905054461" + "6c656b" + "25")) == Opt(b"\x05", b"Dalek", b"\x25", b"", 0x19)
    for bad in ("20", "40", "80", "0600", "07", "01", "10", "1003aa", "1905"):
        try:
            parse_option(h(bad))
        except RefError:
            continue
        raise AssertionError("accepted malformed option " + bad)
    assert build_option(b"\x05", b"Dalek", b"\x25") == h("19050544616c656b25")
    assert build_option() == b""
    return True
