"""Independent RFC 7252 section 3 datagram codec (imports nothing from aiocoap).

parse(data)  -> Msg, or raises Malformed (strict reading of the RFC)
encode(msg)  -> bytes, or raises Unrepresentable
Option values are raw bytes; helpers decode the section 3.2 value formats.
"""

from collections import namedtuple

CON, NON, ACK, RST = 0, 1, 2, 3


class Malformed(Exception):
    pass


class Unrepresentable(Exception):
    pass


Msg = namedtuple("Msg", "type code mid token options payload")
# options: tuple of (number:int, value:bytes) in wire order


def _ext_read(nib, data, pos):
    if nib < 13:
        return nib, pos
    if nib == 13:
        if pos + 1 > len(data):
            raise Malformed("extended field truncated")
        return data[pos] + 13, pos + 1
    if nib == 14:
        if pos + 2 > len(data):
            raise Malformed("extended field truncated")
        return ((data[pos] << 8) | data[pos + 1]) + 269, pos + 2
    raise Malformed("nibble 15 outside payload marker")


def parse(data):
    data = bytes(data)
    if len(data) < 4:
        raise Malformed("shorter than header")
    b0 = data[0]
    if b0 >> 6 != 1:
        raise Malformed("version")
    typ = (b0 >> 4) & 3
    tkl = b0 & 15
    if tkl > 8:
        raise Malformed("token length 9..15 reserved")
    code = data[1]
    mid = (data[2] << 8) | data[3]
    if len(data) < 4 + tkl:
        raise Malformed("token truncated")
    token = data[4 : 4 + tkl]
    pos = 4 + tkl
    number = 0
    options = []
    payload = b""
    while pos < len(data):
        b = data[pos]
        pos += 1
        if b == 0xFF:
            payload = data[pos:]
            if not payload:
                raise Malformed("payload marker followed by zero-length payload")
            break
        dn, ln = b >> 4, b & 15
        if dn == 15 or ln == 15:
            raise Malformed("nibble 15 outside payload marker")
        delta, pos = _ext_read(dn, data, pos)
        length, pos = _ext_read(ln, data, pos)
        if pos + length > len(data):
            raise Malformed("option value truncated")
        number += delta
        options.append((number, data[pos : pos + length]))
        pos += length
    if code == 0 and (tkl or options or payload):
        # RFC 7252 4.1: an Empty message has only the header; anything after it is
        # a message format error. We report it separately; callers decide.
        pass
    return Msg(typ, code, mid, token, tuple(options), payload)


def _ext_write(v):
    if v < 0:
        raise Unrepresentable("negative")
    if v < 13:
        return v, b""
    if v < 269:
        return 13, bytes([v - 13])
    if v <= 65535 + 269:
        return 14, (v - 269).to_bytes(2, "big")
    raise Unrepresentable("extended field value too large")


def encode(msg, sort=True):
    """Serialise. Options are emitted in ascending number order; options of equal
    number keep their relative order (stable)."""
    typ, code, mid, token, options, payload = msg
    if not (0 <= typ <= 3 and 0 <= code <= 255 and 0 <= mid <= 0xFFFF):
        raise Unrepresentable("header field range")
    if len(token) > 8:
        raise Unrepresentable("token too long")
    out = bytearray([0x40 | (typ << 4) | len(token), code, mid >> 8, mid & 0xFF])
    out += token
    opts = list(options)
    if sort:
        opts.sort(key=lambda o: o[0])  # stable
    prev = 0
    for number, value in opts:
        dn, de = _ext_write(number - prev)
        ln, le = _ext_write(len(value))
        out.append((dn << 4) | ln)
        out += de + le + bytes(value)
        prev = number
    if payload:
        out.append(0xFF)
        out += payload
    return bytes(out)


def uint_value(raw):
    return int.from_bytes(raw, "big")


def uint_bytes(v):
    return v.to_bytes((v.bit_length() + 7) // 8, "big")


def block_value(raw):
    """(num, more, szx) of a Block1/Block2 option value"""
    v = int.from_bytes(raw, "big")
    return v >> 4, bool(v & 8), v & 7


def block_bytes(num, more, szx):
    return uint_bytes((num << 4) | (8 if more else 0) | szx)


# option numbers used by the reference peers
IF_MATCH, URI_HOST, ETAG, IF_NONE_MATCH, OBSERVE, URI_PORT, LOCATION_PATH = 1, 3, 4, 5, 6, 7, 8
OSCORE, URI_PATH, CONTENT_FORMAT, MAX_AGE, URI_QUERY, ACCEPT = 9, 11, 12, 14, 15, 17
LOCATION_QUERY, BLOCK2, BLOCK1, SIZE2, PROXY_URI, PROXY_SCHEME, SIZE1 = 20, 23, 27, 28, 35, 39, 60
ECHO, NO_RESPONSE, REQUEST_TAG = 252, 258, 292


def opt(msg, number):
    return [v for (n, v) in msg.options if n == number]


def opt1(msg, number):
    for n, v in msg.options:
        if n == number:
            return v
    return None


def code_str(code):
    return "%d.%02d" % (code >> 5, code & 31)


def c(cls, detail):
    return (cls << 5) | detail


def is_request(code):
    return 1 <= code <= 31


def is_response(code):
    return 64 <= code <= 191


def describe(msg):
    return {
        "type": "CON NON ACK RST".split()[msg.type],
        "code": code_str(msg.code),
        "mid": msg.mid,
        "token": msg.token.hex(),
        "options": [(n, v.hex()) for n, v in msg.options],
        "payload": msg.payload[:48].hex() + ("…" if len(msg.payload) > 48 else ""),
        "payload_len": len(msg.payload),
    }


def selftest():
    # RFC 7252 / common example datagrams
    m = parse(bytes.fromhex("40017d34") + b"\xbbtemperature")
    assert m == Msg(CON, 1, 0x7D34, b"", ((11, b"temperature"),), b"")
    m = parse(bytes.fromhex("60457d34") + b"\xff22.3 C")
    assert m == Msg(ACK, 0x45, 0x7D34, b"", (), b"22.3 C")
    for m in [
        Msg(0, 1, 0, b"", (), b""),
        Msg(1, 2, 65535, b"12345678", ((1, b""), (1, b"a"), (14, b"x" * 13), (283, b"y" * 269), (65535, b"z" * 300)), b"\xff"),
        Msg(2, 69, 7, b"t", ((65804, b""), (65804 + 65804, b"")), b"p"),
    ]:
        assert parse(encode(m)) == m, m
    for bad in [b"", b"\x40", b"\x00\x01\x00\x00", b"\x49\x01\x00\x00" + b"x" * 9, b"\x40\x01\x00\x00\xff", b"\x40\x01\x00\x00\xf0", b"\x40\x01\x00\x00\x0f", b"\x40\x01\x00\x00\xd0", b"\x40\x01\x00\x00\x01"]:
        try:
            parse(bad)
        except Malformed:
            pass
        else:
            raise AssertionError(bad)
    try:
        encode(Msg(0, 1, 0, b"", ((65805, b""),), b""))
    except Unrepresentable:
        pass
    else:
        raise AssertionError()
    assert encode(Msg(0, 1, 0, b"", ((0, b"x" * 65804),), b""))[4:7] == b"\x0e\xff\xff"
    return True


if __name__ == "__main__":
    print(selftest())
