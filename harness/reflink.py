"""Independent RFC 6690 (CoRE Link Format) parser and query-filter matcher.

Imports nothing from aiocoap.  Written from the ABNF of RFC 6690 section 2:

    Link            = link-value-list
    link-value-list = [ link-value *[ "," link-value ]]
    link-value      = "<" URI-Reference ">" *( ";" link-param )
    link-param      = parmname [ "=" ( ptoken / quoted-string ) ]      ; generic form
    quoted-string   = DQUOTE *( qdtext / "\\" CHAR ) DQUOTE            ; RFC 2616
    ptoken          = 1*ptokenchar

(no white space between the elements: RFC 6690 removed the optional LWS of RFC 5988).
Every link-param is read through the generic `link-extension` production; the
per-attribute value grammars (cardinal for sz, relation-types for rt/if, ...) are
NOT enforced, because no property judges aiocoap's serialisation style -- only
which links with which attribute values are present.

parse(payload)            -> [Link(href, params)], params = tuple of (name, value|None)
values(link, name)        -> list of the values of every occurrence of attribute `name`
matches(link, name, pat)  -> RFC 6690 section 4.1 filter semantics for one
                             `name=pat` query (pat may end in '*')
"""

from collections import namedtuple


class Malformed(Exception):
    pass


Link = namedtuple("Link", "href params")

_ALPHA = "abcdefghijklmnopqrstuvwxyzABCDEFGHIJKLMNOPQRSTUVWXYZ"
_DIGIT = "0123456789"
# RFC 5987 attr-char, plus "*" so that ext-name-star ("title*") reads as a name
_PARMNAME = set(_ALPHA + _DIGIT + "!#$&+-.^_`|~*")
# RFC 6690 ptokenchar
_PTOKEN = set(_ALPHA + _DIGIT + "!#$%&'()*+-./:<=>?@[]^_`{|}~")

# attributes whose value is a space-separated list in which each item is matched on
# its own (RFC 6690 section 4.1 "relation-types"; ct per RFC 7252 section 7.2.1)
SPACE_SEPARATED = ("rt", "if", "rel", "rev", "ct")


def parse(data):
    if isinstance(data, (bytes, bytearray)):
        try:
            s = bytes(data).decode("utf8")
        except UnicodeDecodeError as e:
            raise Malformed("payload is not UTF-8: %s" % e)
    else:
        s = data
    links = []
    pos = 0
    n = len(s)
    if n == 0:
        return links
    while True:
        # link-value
        if pos >= n or s[pos] != "<":
            raise Malformed("expected '<' at offset %d" % pos)
        end = s.find(">", pos + 1)
        if end < 0:
            raise Malformed("unterminated URI-Reference at offset %d" % pos)
        href = s[pos + 1 : end]
        if "<" in href:
            raise Malformed("'<' inside URI-Reference at offset %d" % pos)
        pos = end + 1
        params = []
        while pos < n and s[pos] == ";":
            pos += 1
            start = pos
            while pos < n and s[pos] in _PARMNAME:
                pos += 1
            name = s[start:pos]
            if not name:
                raise Malformed("empty parameter name at offset %d" % start)
            value = None
            if pos < n and s[pos] == "=":
                pos += 1
                if pos < n and s[pos] == '"':
                    pos += 1
                    out = []
                    while True:
                        if pos >= n:
                            raise Malformed("unterminated quoted-string")
                        c = s[pos]
                        if c == "\\":
                            if pos + 1 >= n:
                                raise Malformed("dangling backslash in quoted-string")
                            out.append(s[pos + 1])
                            pos += 2
                        elif c == '"':
                            pos += 1
                            break
                        else:
                            out.append(c)
                            pos += 1
                    value = "".join(out)
                else:
                    start = pos
                    while pos < n and s[pos] in _PTOKEN and s[pos] not in ",;":
                        pos += 1
                    value = s[start:pos]
                    if not value:
                        raise Malformed("empty ptoken at offset %d" % start)
            params.append((name, value))
        links.append(Link(href, tuple(params)))
        if pos == n:
            return links
        if s[pos] != ",":
            raise Malformed("expected ',' or end at offset %d, found %r" % (pos, s[pos : pos + 10]))
        pos += 1


def values(link, name):
    """Values of every occurrence of attribute `name` (a value-less flag such as
    `obs` contributes nothing)."""
    return [v for (k, v) in link.params if k == name and v is not None]


def has(link, name):
    return any(k == name for (k, _v) in link.params)


def targets(link, name):
    """The strings a `name=...` filter is compared against (RFC 6690 section 4.1)."""
    if name == "href":
        return [link.href]
    out = []
    for v in values(link, name):
        if name in SPACE_SEPARATED:
            out.extend(p for p in v.split(" ") if p != "")
        else:
            out.append(v)
    return out


def matches(link, name, pattern):
    """RFC 6690 section 4.1: without trailing '*' the value must be identical to
    the pattern, with it the rest of the pattern must be a prefix of the value.
    A link that does not carry the attribute has no value and cannot match. (A bare `*` asks for the presence of
    the attribute, with or without value: callers use has() for that.)"""
    if pattern.endswith("*"):
        pre = pattern[:-1]
        return any(t.startswith(pre) for t in targets(link, name))
    return any(t == pattern for t in targets(link, name))


def key(link):
    """Order-insensitive identity of a link for set comparison."""
    return (link.href, tuple(sorted((k, "" if v is None else "=" + v) for k, v in link.params)))


def selftest():
    # RFC 6690 section 5 examples
    ex = '</sensors>;ct=40;title="Sensor Index",</sensors/temp>;rt="temperature-c";if="sensor",' '</sensors/light>;rt="light-lux";if="sensor",<http://www.example.com/sensors/t123>;anchor="/sensors/temp"' ';rel="describedby",</t>;anchor="/sensors/temp";rel="alternate"'
    ls = parse(ex)
    assert [l.href for l in ls] == ["/sensors", "/sensors/temp", "/sensors/light", "http://www.example.com/sensors/t123", "/t"], ls
    assert ls[0].params == (("ct", "40"), ("title", "Sensor Index"))
    assert ls[3].params == (("anchor", "/sensors/temp"), ("rel", "describedby"))
    assert parse(b"") == []
    assert parse("</a>") == [Link("/a", ())]
    assert parse("</s/1>;obs;if=\"core.s\";foo=\"\"") == [Link("/s/1", (("obs", None), ("if", "core.s"), ("foo", "")))]
    assert parse('</a>;title="x,y;z\\"q\\\\",</b>;sz=12') == [Link("/a", (("title", 'x,y;z"q\\'),)), Link("/b", (("sz", "12"),))]
    assert parse("<>;rt=a") == [Link("", (("rt", "a"),))]
    assert parse("</a//>,<//b>") == [Link("/a//", ()), Link("//b", ())]
    for bad in ["</a>,", ",</a>", "</a>;", "</a> ,</b>", "</a>, </b>", "</a>; rt=x", "</a", "a", '</a>;rt="x', "</a>;rt=", "</a>;=x", "</a></b>", b"</\xff>"]:
        try:
            parse(bad)
        except Malformed:
            pass
        else:
            raise AssertionError("accepted %r" % (bad,))
    # filter semantics (RFC 6690 section 4.1 and the examples of section 5)
    t = ls[1]
    assert matches(t, "rt", "temperature-c") and matches(t, "rt", "temp*") and not matches(t, "rt", "temp")
    assert matches(t, "href", "/sensors/temp") and matches(t, "href", "/sensors*") and not matches(t, "href", "/sensors")
    assert not matches(ls[0], "rt", "*") and matches(t, "rt", "*") and not matches(ls[0], "rt", "")
    m = Link("/m", (("rt", "aa bb"), ("ct", "0 40"), ("title", "aa bb"), ("obs", None)))
    assert matches(m, "rt", "bb") and matches(m, "rt", "b*") and not matches(m, "rt", "aa bb") and not matches(m, "rt", "a b*")
    assert matches(m, "ct", "40") and matches(m, "ct", "4*") and not matches(m, "ct", "4")
    assert matches(m, "title", "aa bb") and matches(m, "title", "aa *") and not matches(m, "title", "bb") and not matches(m, "title", "a")
    assert not matches(m, "obs", "*") and not matches(m, "if", "*") and not matches(m, "sz", "1")
    assert key(Link("/a", (("rt", "x"), ("ct", "0")))) == key(Link("/a", (("ct", "0"), ("rt", "x"))))
    return True


if __name__ == "__main__":
    print(selftest())
