"""Per-worker result collector. Serialised to JSON and merged by the runner."""

import hashlib
import json
import traceback


def sig_hash(obj):
    if not isinstance(obj, (bytes, str)):
        obj = json.dumps(obj, sort_keys=True, default=repr)
    if isinstance(obj, str):
        obj = obj.encode("utf8", "surrogatepass")
    return int.from_bytes(hashlib.blake2b(obj, digest_size=8).digest(), "big")


class Reporter:
    MAX_WITNESSES_PER_KEY = 3
    MAX_SIGS = 400_000

    def __init__(self, prop, shard):
        self.prop = prop
        self.shard = shard
        self.evaluations = 0
        self.sigs = set()
        self.sigs_overflow = 0
        self.monitors = {}
        self.counters = {}
        self.violations = {}  # key -> {"count": n, "what": str, "witnesses": [..]}
        self.samples = []
        self.inconclusive = []
        self.sets = {}  # name -> set of small hashable values (merged by union)

    # -- cases ----------------------------------------------------------------
    def case(self, sig=None, nontrivial=False):
        """One generated case / executed scenario. `sig` identifies its structure;
        it only counts towards distinct_nontrivial when `nontrivial`."""
        self.evaluations += 1
        if nontrivial and sig is not None:
            self.nontrivial(sig)

    def nontrivial(self, sig):
        h = sig if isinstance(sig, int) else sig_hash(sig)
        if len(self.sigs) < self.MAX_SIGS:
            self.sigs.add(h)
        elif h not in self.sigs:
            self.sigs_overflow += 1

    def monitor(self, name, n=1):
        self.monitors[name] = self.monitors.get(name, 0) + n

    def count(self, name, n=1):
        self.counters[name] = self.counters.get(name, 0) + n

    def seen(self, setname, value):
        self.sets.setdefault(setname, set()).add(value)

    def sample(self, obj, limit=3):
        if len(self.samples) < limit:
            self.samples.append(obj)

    # -- verdicts -----------------------------------------------------------
    def violation(self, key, what, witness=None, case=None):
        """key: mechanism key (stable, never contains random values).
        witness: JSON-serialisable description; case: opaque value understood by
        the check's run_shard(only=case) for replay."""
        v = self.violations.setdefault(key, {"count": 0, "what": what, "witnesses": []})
        v["count"] += 1
        if len(v["witnesses"]) < self.MAX_WITNESSES_PER_KEY:
            v["witnesses"].append({"what": what, "witness": witness, "shard": self.shard, "case": case})

    def inconc(self, reason):
        if reason not in self.inconclusive:
            self.inconclusive.append(reason)

    def exception_witness(self, exc):
        return "".join(traceback.format_exception(type(exc), exc, exc.__traceback__))[-4000:]

    def dump(self):
        return {
            "prop": self.prop,
            "evaluations": self.evaluations,
            "sigs": sorted(self.sigs),
            "sigs_overflow": self.sigs_overflow,
            "monitors": self.monitors,
            "counters": self.counters,
            "violations": self.violations,
            "samples": self.samples,
            "inconclusive": self.inconclusive,
            "sets": {k: sorted(v, key=repr) for k, v in self.sets.items()},
        }
