"""Process bootstrap for workers: put /repo first on sys.path, refuse to run on a
different aiocoap, install process-wide capture hooks.

Imported *before* aiocoap in every worker."""

import os
import sys

REPO = os.environ.get("VERIF_REPO", "/repo")
VERIF = os.path.dirname(os.path.dirname(os.path.abspath(__file__)))
DEPS = os.path.join(VERIF, ".deps")


class Inconclusive(Exception):
    """The harness could not reach a verdict (never a violation)."""


def setup_paths(shims=False):
    # /repo must win over the copied install in /venv/lib/.../site-packages
    for p in (REPO,):
        while p in sys.path:
            sys.path.remove(p)
    sys.path.insert(0, REPO)
    if shims:
        sys.path.insert(0, os.path.join(VERIF, "harness", "shims"))
    if os.path.isdir(DEPS) and DEPS not in sys.path:
        sys.path.append(DEPS)
    if VERIF not in sys.path:
        sys.path.append(VERIF)


def assert_repo_aiocoap():
    import aiocoap

    f = os.path.realpath(aiocoap.__file__)
    want = os.path.realpath(os.path.join(REPO, "aiocoap"))
    if not f.startswith(want + os.sep):
        raise Inconclusive(f"aiocoap imported from {f}, not from {want}")
    return f
