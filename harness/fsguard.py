"""fsguard — file-system access monitor for one module's code (used by C19).

What is observed
    * `sys.addaudithook`: open, os.listdir, os.scandir, os.rename (also os.replace),
      os.remove, os.mkdir, os.rmdir, os.link, os.symlink, os.truncate, os.chmod,
      os.chown, os.utime, os.*xattr, tempfile.mkstemp/mkdtemp, shutil.*, and process
      creation (subprocess.Popen, os.system, os.exec, os.posix_spawn, os.fork).
    * wrappers on `os.stat`, `os.lstat`, `os.access`, `os.readlink`, `os.mkfifo`,
      `os.mknod` (CPython raises no audit event for them). On CPython 3.12
      `pathlib.Path.stat/lstat/is_dir/is_file/exists/samefile` call `os.stat`,
      `iterdir` -> os.listdir, `glob`/`os.walk` -> os.scandir, `open`/`read_bytes` -> open,
      `unlink` -> os.remove, `rename`/`replace` -> os.rename, `touch` -> os.utime + open,
      `resolve` -> os.lstat/os.readlink; `selftest()` re-verifies exactly this on the
      running interpreter, from a frame that carries the watched file name.

Attribution
    An access is *attributed* iff a frame whose code object's file name is one of the
    watched files (`install(watched_files)`) is on the Python stack when the access is
    made. Accesses made while the import machinery runs underneath such a frame
    (a lazy `import` executed for the first time) are counted separately and not judged.

Judgement
    The path argument (str / bytes / PathLike / fd, with dir_fd) is resolved with
    `os.path.realpath` relative to the current directory (for operations that act on a
    directory entry rather than on what it points to — remove, rename, mkdir, rmdir,
    symlink, link target, mkstemp, lstat — the parent is resolved and the last component
    kept). Inside = equal to the realpath of the current root or below it.
    A path with an embedded NUL cannot name any file-system object (the call fails with
    ValueError before a system call is made): recorded as `unresolvable`, never outside.

Blocking
    A *mutating* attributed access outside the root raises PermissionError from the hook,
    i.e. before the effect, unless it falls inside one of the `sacrificial` directories
    given to `set_root` (default: none; C19 passes its own scratch area so that the real
    outcome of a hostile request against the decoy can be observed and snapshot oracles
    have something to see; nothing outside the scratch area can ever be modified).
    Process creation from a watched frame is always blocked.

Audit hooks cannot be removed: `install()` is idempotent per process; `enable()` /
`disable()` switch the monitor; `set_root()` sets the current root. `stats["attributed"]`
counts judged accesses — a run with zero attributed accesses decides nothing.
"""

import errno
import os
import sys

_installed = False
_enabled = False
_busy = False  # the guard's own path resolution is running
_watched = frozenset()
_root = None
_sacrificial = ()
_records = []
stats = {"attributed": 0, "outside": 0, "blocked": 0, "unresolvable": 0, "during_import": 0, "hook_errors": 0}
hook_errors = []

_orig = {}

O_WRITEISH = os.O_WRONLY | os.O_RDWR | os.O_CREAT | os.O_TRUNC | os.O_APPEND

# event -> list of (argument index, kind, follow_last_component, mutating, dir_fd argument index or None)
_EVENTS = {
    "os.listdir": [(0, "list", True, False, None)],
    "os.scandir": [(0, "list", True, False, None)],
    "os.rename": [(0, "write", False, True, 2), (1, "write", False, True, 3)],
    "os.remove": [(0, "delete", False, True, 1)],
    "os.rmdir": [(0, "delete", False, True, 1)],
    "os.mkdir": [(0, "write", False, True, 2)],
    "os.link": [(0, "write", False, True, 2), (1, "write", False, True, 3)],
    "os.symlink": [(1, "write", False, True, 2)],
    "os.truncate": [(0, "write", True, True, None)],
    "os.chmod": [(0, "write", True, True, 2)],
    "os.chown": [(0, "write", True, True, 3)],
    "os.utime": [(0, "write", True, True, 3)],
    "os.chflags": [(0, "write", True, True, None)],
    "os.setxattr": [(0, "write", True, True, None)],
    "os.removexattr": [(0, "write", True, True, None)],
    "os.getxattr": [(0, "stat", True, False, None)],
    "os.listxattr": [(0, "stat", True, False, None)],
    "tempfile.mkstemp": [(0, "write", False, True, None)],
    "tempfile.mkdtemp": [(0, "write", False, True, None)],
    "shutil.copyfile": [(0, "read", True, False, None), (1, "write", True, True, None)],
    "shutil.copymode": [(0, "stat", True, False, None), (1, "write", True, True, None)],
    "shutil.copystat": [(0, "stat", True, False, None), (1, "write", True, True, None)],
    "shutil.copytree": [(0, "list", True, False, None), (1, "write", False, True, None)],
    "shutil.move": [(0, "write", False, True, None), (1, "write", False, True, None)],
    "shutil.rmtree": [(0, "delete", False, True, None)],
    "shutil.chown": [(0, "write", True, True, None)],
    "shutil.make_archive": [(0, "write", False, True, None)],
    "shutil.unpack_archive": [(0, "read", True, False, None), (1, "write", False, True, None)],
}
_SPAWN = {"subprocess.Popen", "os.system", "os.exec", "os.posix_spawn", "os.fork", "os.forkpty", "os.spawn", "os.startfile"}

# wrapped functions (no audit event): name -> (kind, follow, mutating)
_WRAPPED = {
    "stat": ("stat", True, False),
    "lstat": ("stat", False, False),
    "access": ("stat", True, False),
    "readlink": ("stat", False, False),
    "mkfifo": ("write", False, True),
    "mknod": ("write", False, True),
}


class Blocked(PermissionError):
    """Raised from the hook for a mutating access outside the root."""


def _attribution():
    """(function name, line) of the innermost watched frame on the stack, or None.
    Returns False if the import machinery sits between the access and that frame."""
    f = sys._getframe(2)
    importing = False
    while f is not None:
        fn = f.f_code.co_filename
        if fn in _watched:
            if importing:
                return False
            return (f.f_code.co_name, f.f_lineno)
        if fn.startswith("<frozen importlib"):
            importing = True
        f = f.f_back
    return None


def _fd_path(fd):
    try:
        return _orig["readlink"]("/proc/self/fd/%d" % fd)
    except OSError:
        return None


def resolve(path, dir_fd=None, follow=True):
    """-> (resolved absolute path or None, note). Never raises."""
    global _busy
    was = _busy
    _busy = True
    try:
        if path is None:
            path = "."
        if isinstance(path, int) and not isinstance(path, bool):
            p = _fd_path(path)
            return (p, "fd") if p is not None else (None, "bad-fd")
        try:
            p = os.fspath(path)
        except TypeError:
            return None, "not-a-path"
        if isinstance(p, bytes):
            p = os.fsdecode(p)
        if "\0" in p:
            return None, "embedded-nul"
        if dir_fd is not None and dir_fd != -1 and isinstance(dir_fd, int) and not os.path.isabs(p):
            base = _fd_path(dir_fd)
            if base is None:
                return None, "bad-dir-fd"
            p = os.path.join(base, p)
        try:
            if follow:
                return os.path.realpath(p), None
            stripped = p.rstrip("/") or "/"
            head, tail = os.path.split(stripped)
            if tail in ("", ".", ".."):
                return os.path.realpath(p), None
            return os.path.join(os.path.realpath(head or "."), tail), None
        except (OSError, ValueError) as e:
            return None, "realpath-failed:%s" % type(e).__name__
    finally:
        _busy = was


def is_inside(resolved, root=None):
    root = _root if root is None else root
    return resolved == root or resolved.startswith(root.rstrip("/") + "/")


def _judge(op, kind, raw, dir_fd, follow, mutating, who):
    """Record one attributed access; returns the record."""
    resolved, note = resolve(raw, dir_fd, follow)
    stats["attributed"] += 1
    rec = {
        "op": op,
        "kind": kind,
        "raw": raw if isinstance(raw, (int, str)) else (os.fsdecode(raw) if isinstance(raw, bytes) else str(raw)),
        "resolved": resolved,
        "note": note,
        "mutating": mutating,
        "inside": None,
        "blocked": False,
        "where": "%s:%d" % who,
    }
    if resolved is None:
        stats["unresolvable"] += 1
        rec["inside"] = None
    elif _root is None:
        rec["inside"] = None
        rec["note"] = "no-root-set"
    else:
        rec["inside"] = is_inside(resolved)
        if not rec["inside"]:
            stats["outside"] += 1
            if mutating and not any(is_inside(resolved, s) for s in _sacrificial):
                rec["blocked"] = True
                stats["blocked"] += 1
    _records.append(rec)
    return rec


def _hook(event, args):
    if not _enabled or _busy:
        return
    spec = _EVENTS.get(event)
    if spec is None and event != "open" and event not in _SPAWN:
        return
    who = _attribution()
    if who is None:
        return
    if who is False:
        stats["during_import"] += 1
        return
    blocked = None
    try:
        if event == "open":
            path, mode, flags = (tuple(args) + (None, None, None))[:3]
            writeish = bool(isinstance(flags, int) and flags & O_WRITEISH) or (isinstance(mode, str) and any(c in mode for c in "wax+"))
            rec = _judge("open", "write" if writeish else "read", path, None, True, writeish, who)
            rec["mode"] = mode
            rec["flags"] = flags
            if rec["blocked"]:
                blocked = rec
        elif event in _SPAWN:
            stats["attributed"] += 1
            stats["outside"] += 1
            stats["blocked"] += 1
            rec = {"op": event, "kind": "exec", "raw": repr(args)[:200], "resolved": None, "note": "process creation", "mutating": True, "inside": False, "blocked": True, "where": "%s:%d" % who}
            _records.append(rec)
            blocked = rec
        else:
            for idx, kind, follow, mutating, dfi in spec:
                if idx >= len(args):
                    continue
                dir_fd = args[dfi] if dfi is not None and dfi < len(args) else None
                rec = _judge(event, kind, args[idx], dir_fd, follow, mutating, who)
                if rec["blocked"] and blocked is None:
                    blocked = rec
    except Exception as e:  # a defect of the guard must never look like library behaviour
        stats["hook_errors"] += 1
        if len(hook_errors) < 5:
            hook_errors.append("%s%r: %r" % (event, args, e))
        return
    if blocked is not None:
        raise Blocked(errno.EACCES, "fsguard: blocked %s outside the root" % blocked["op"], str(blocked["raw"]))


def _make_wrapper(name, kind, follow, mutating):
    orig = _orig[name]

    def wrapper(path, *a, **kw):
        if _enabled and not _busy:
            who = _attribution()
            if who:
                rec = None
                try:
                    fl = follow
                    if name == "stat" and kw.get("follow_symlinks") is False:
                        fl = False
                    rec = _judge("os." + name, kind, path, kw.get("dir_fd"), fl, mutating, who)
                except Exception as e:
                    stats["hook_errors"] += 1
                    if len(hook_errors) < 5:
                        hook_errors.append("os.%s(%r): %r" % (name, path, e))
                if rec is not None and rec["blocked"]:
                    raise Blocked(errno.EACCES, "fsguard: blocked os.%s outside the root" % name, str(rec["raw"]))
            elif who is False:
                stats["during_import"] += 1
        return orig(path, *a, **kw)

    wrapper.__name__ = name
    wrapper.__qualname__ = name
    wrapper.__doc__ = orig.__doc__
    wrapper.__wrapped__ = orig
    return wrapper


def install(watched_files):
    """Install hook and wrappers (once per process) and set the watched file names."""
    global _installed, _watched
    names = set()
    for w in watched_files:
        names.add(w)
        names.add(os.path.realpath(w))
        names.add(os.path.abspath(w))
    _watched = frozenset(names)
    if _installed:
        return
    for name in _WRAPPED:
        if hasattr(os, name):
            _orig[name] = getattr(os, name)
    if "readlink" not in _orig:
        _orig["readlink"] = os.readlink
    for name, (kind, follow, mutating) in _WRAPPED.items():
        if name in _orig:
            setattr(os, name, _make_wrapper(name, kind, follow, mutating))
    sys.addaudithook(_hook)
    _installed = True


def set_root(root, sacrificial=()):
    global _root, _sacrificial
    global _busy
    was = _busy
    _busy = True
    try:
        _root = os.path.realpath(root) if root is not None else None
        _sacrificial = tuple(os.path.realpath(s) for s in sacrificial)
    finally:
        _busy = was
    return _root


def enable():
    global _enabled
    if not _installed:
        raise RuntimeError("fsguard.install() first")
    _enabled = True


def disable():
    global _enabled
    _enabled = False


class paused:
    """with fsguard.paused(): harness file IO that should cost nothing"""

    def __enter__(self):
        global _enabled
        self.was = _enabled
        _enabled = False

    def __exit__(self, *a):
        global _enabled
        _enabled = self.was


def drain():
    """Return and forget the attributed accesses recorded since the last drain."""
    global _records
    out = _records
    _records = []
    return out


# -- self test ---------------------------------------------------------------------

_SELFTEST_SRC = r'''
def run(ops):
    out = {}
    for name, fn in ops:
        try:
            fn()
            out[name] = None
        except BaseException as e:
            out[name] = e
    return out
'''


class SelfTestFailed(Exception):
    pass


def selftest(scratch):
    """Run every pathlib / os / tempfile operation the watched module could plausibly use
    from a frame that carries a watched file name, inside `scratch/g_root` and against
    `scratch/g_out`, and require that each is seen, judged and (for mutations outside)
    blocked before the effect. Returns the number of expectations verified.

    Leaves root / enabled state as found."""
    import shutil
    import tempfile
    from pathlib import Path

    global _root, _sacrificial, _enabled
    if not _installed or not _watched:
        raise SelfTestFailed("not installed")
    saved = (_root, _sacrificial, _enabled, drain())
    with paused():
        root = os.path.join(scratch, "g_root")
        out = os.path.join(scratch, "g_out")
        for d in (root, out):
            shutil.rmtree(d, ignore_errors=True)
            os.makedirs(os.path.join(d, "d"))
            with open(os.path.join(d, "f"), "wb") as f:
                f.write(b"12345")
            with open(os.path.join(d, "victim"), "wb") as f:
                f.write(b"victim")
    ns = {}
    exec(compile(_SELFTEST_SRC, sorted(_watched)[0], "exec"), ns)
    run = ns["run"]
    checked = 0
    try:
        set_root(root)
        R, O = Path(root), Path(out)
        rr, oo = os.path.realpath(root), os.path.realpath(out)

        def expect(label, ops, wants):
            """wants: list of (op, kind, resolved, inside, blocked)"""
            nonlocal checked
            drain()
            _enable_raw(True)
            try:
                res = run(ops)
            finally:
                _enable_raw(False)
            recs = drain()
            for want in wants:
                op, kind, resolved, inside, blocked = want
                hit = [r for r in recs if r["op"] == op and r["kind"] == kind and r["resolved"] == resolved and r["inside"] is inside and r["blocked"] is blocked]
                if not hit:
                    raise SelfTestFailed("%s: expected %r, recorded %r (results %r)" % (label, want, [(r["op"], r["kind"], r["resolved"], r["inside"], r["blocked"]) for r in recs], res))
                checked += 1
            return res, recs

        # ---- inside the root: everything is seen and nothing is blocked
        res, _ = expect(
            "inside-read",
            [
                ("stat", lambda: (R / "f").stat()),
                ("lstat", lambda: (R / "victim").lstat()),
                ("is_dir", lambda: (R / "d").is_dir()),
                ("exists", lambda: (R / "nope").exists()),
                ("iterdir", lambda: list((R / "d").iterdir())),
                ("open", lambda: (R / "f").open("rb").close()),
                ("scandir", lambda: os.scandir(root).close()),
                ("bytes-path", lambda: os.stat(os.fsencode(os.path.join(root, "d", "..", "f")))),
            ],
            [
                ("os.stat", "stat", rr + "/f", True, False),
                ("os.stat", "stat", rr + "/victim", True, False),
                ("os.stat", "stat", rr + "/d", True, False),
                ("os.stat", "stat", rr + "/nope", True, False),
                ("os.listdir", "list", rr + "/d", True, False),
                ("open", "read", rr + "/f", True, False),
                ("os.scandir", "list", rr, True, False),
            ],
        )
        bad = {k: v for k, v in res.items() if v is not None}
        if bad:
            raise SelfTestFailed("inside-read operations failed: %r" % bad)

        def tmp():
            with tempfile.NamedTemporaryFile(dir=R, delete=False) as sp:
                sp.write(b"x")
                name = sp.name
            Path(name).rename(R / "renamed")

        res, recs = expect(
            "inside-write",
            [
                ("tmp+rename", tmp),
                ("replace", lambda: (R / "renamed").replace(R / "replaced")),
                ("unlink", lambda: (R / "replaced").unlink()),
                ("openw", lambda: (R / "w").open("wb").close()),
                ("mkdir", lambda: (R / "nd").mkdir()),
                ("rmdir", lambda: (R / "nd").rmdir()),
                ("chmod", lambda: (R / "w").chmod(0o600)),
                ("truncate", lambda: os.truncate(R / "w", 0)),
                ("touch", lambda: (R / "w").touch()),
                ("symlink", lambda: (R / "sl").symlink_to("f")),
                ("link", lambda: (R / "hl").hardlink_to(R / "f")),
            ],
            [
                ("os.rename", "write", rr + "/renamed", True, False),
                ("os.rename", "write", rr + "/replaced", True, False),
                ("os.remove", "delete", rr + "/replaced", True, False),
                ("open", "write", rr + "/w", True, False),
                ("os.mkdir", "write", rr + "/nd", True, False),
                ("os.rmdir", "delete", rr + "/nd", True, False),
                ("os.chmod", "write", rr + "/w", True, False),
                ("os.truncate", "write", rr + "/w", True, False),
                ("os.utime", "write", rr + "/w", True, False),
                ("os.symlink", "write", rr + "/sl", True, False),
                ("os.link", "write", rr + "/hl", True, False),
            ],
        )
        if not any(r["op"] == "tempfile.mkstemp" and r["inside"] and r["resolved"].startswith(rr + "/") for r in recs):
            raise SelfTestFailed("tempfile.mkstemp inside the root not seen: %r" % recs)
        checked += 1
        bad = {k: v for k, v in res.items() if v is not None}
        if bad:
            raise SelfTestFailed("inside-write operations failed: %r" % bad)

        # ---- outside: reads are recorded, mutations are blocked before the effect
        res, _ = expect(
            "outside-read",
            [
                ("stat", lambda: (O / "f").stat()),
                ("dotdot", lambda: (R / ".." / "g_out" / "victim").stat()),
                ("abs-join", lambda: (R / ("/" + out.lstrip("/") + "/d")).is_dir()),
                ("iterdir", lambda: list(O.iterdir())),
                ("open", lambda: (O / "f").open("rb").close()),
                ("nul", lambda: (O / "x\0y").stat()),
            ],
            [
                ("os.stat", "stat", oo + "/f", False, False),
                ("os.stat", "stat", oo + "/victim", False, False),
                ("os.stat", "stat", oo + "/d", False, False),
                ("os.listdir", "list", oo, False, False),
                ("open", "read", oo + "/f", False, False),
                ("os.stat", "stat", None, None, False),
            ],
        )

        def tmp_out():
            with tempfile.NamedTemporaryFile(dir=O, delete=False) as sp:
                sp.write(b"x")

        res, _ = expect(
            "outside-write",
            [
                ("tmp", tmp_out),
                ("unlink", lambda: (O / "victim").unlink()),
                ("rename-out", lambda: (R / "f").rename(O / "stolen")),
                ("rename-in", lambda: (O / "victim").rename(R / "taken")),
                ("openw", lambda: (O / "victim").open("wb").close()),
                ("opena", lambda: (O / "victim").open("ab").close()),
                ("mkdir", lambda: (O / "nd").mkdir()),
                ("rmdir", lambda: (O / "d").rmdir()),
                ("chmod", lambda: (O / "victim").chmod(0o600)),
                ("truncate", lambda: os.truncate(O / "victim", 0)),
                ("symlink", lambda: (O / "sl").symlink_to("f")),
                ("link", lambda: (O / "hl").hardlink_to(R / "f")),
                ("rmtree", lambda: shutil.rmtree(out)),
            ],
            [
                ("open", "write", oo, False, True),
                ("os.remove", "delete", oo + "/victim", False, True),
                ("os.rename", "write", oo + "/stolen", False, True),
                ("os.rename", "write", oo + "/victim", False, True),
                ("open", "write", oo + "/victim", False, True),
                ("os.mkdir", "write", oo + "/nd", False, True),
                ("os.rmdir", "delete", oo + "/d", False, True),
                ("os.chmod", "write", oo + "/victim", False, True),
                ("os.truncate", "write", oo + "/victim", False, True),
                ("os.symlink", "write", oo + "/sl", False, True),
                ("os.link", "write", oo + "/hl", False, True),
                ("shutil.rmtree", "delete", oo, False, True),
            ],
        )
        notblocked = [k for k, v in res.items() if not isinstance(v, Blocked)]
        if notblocked:
            raise SelfTestFailed("mutations outside the root were not blocked: %r -> %r" % (notblocked, res))
        checked += len(res)
        with paused():
            now = sorted(os.listdir(out))
            if now != ["d", "f", "victim"] or open(os.path.join(out, "victim"), "rb").read() != b"victim" or not os.path.exists(os.path.join(root, "f")):
                raise SelfTestFailed("blocked operations had an effect: %r" % now)
        checked += 1

        # ---- sacrificial zone: recorded as outside, not blocked
        set_root(root, sacrificial=[scratch])
        res, _ = expect("sacrificial", [("unlink", lambda: (O / "victim").unlink())], [("os.remove", "delete", oo + "/victim", False, False)])
        if res["unlink"] is not None or os.path.exists(os.path.join(out, "victim")):
            raise SelfTestFailed("sacrificial zone: operation should have gone through: %r" % res)
        beyond = os.path.join(os.path.dirname(os.path.realpath(scratch)), "fsguard-selftest-" + os.path.basename(scratch))
        res, _ = expect("beyond-sacrificial", [("mkdir", lambda: Path(beyond).mkdir())], [("os.mkdir", "write", beyond, False, True)])
        if not isinstance(res["mkdir"], Blocked):
            with paused():
                if os.path.isdir(beyond):
                    os.rmdir(beyond)
            raise SelfTestFailed("mutation outside the sacrificial zone not blocked")

        # ---- not attributed: same operations from an ordinary frame leave no record
        drain()
        _enable_raw(True)
        try:
            (O / "f").stat()
            list(O.iterdir())
        finally:
            _enable_raw(False)
        if drain():
            raise SelfTestFailed("access from a non-watched frame was attributed")
        checked += 1
        if stats["hook_errors"]:
            raise SelfTestFailed("guard errors: %r" % hook_errors)
    finally:
        _enable_raw(False)
        with paused():
            shutil.rmtree(os.path.join(scratch, "g_root"), ignore_errors=True)
            shutil.rmtree(os.path.join(scratch, "g_out"), ignore_errors=True)
        _root, _sacrificial = saved[0], saved[1]
        drain()
        _records.extend(saved[3])
        _enabled = saved[2]
    return checked


def _enable_raw(flag):
    global _enabled
    _enabled = flag
