"""Stand-in for the third-party `ge25519` package (absent from this sandbox): decoding of an
Ed25519 point, the small-order test and the prime-order-subgroup test, i.e. exactly what
aiocoap/util/cryptography_additions.pk_to_curve25519 calls (`ge25519.has_small_order`,
`ge25519_p3.from_bytes`, `.root_check`, `.is_on_main_subgroup()`, `.Y`).
Plain Python integers; results are memoised per encoded point (pure functions).
Not code under test: it replaces a dependency; checked each run by harness/oscore_env.group_env()."""

from fe25519 import fe25519, P

D = (-121665 * pow(121666, P - 2, P)) % P
SQRT_M1 = pow(2, (P - 1) // 4, P)
L = 2**252 + 27742317777372353535851937790883648493


def _add(p, q):
    # extended coordinates, a = -1 (RFC 8032 section 5.1.4)
    x1, y1, z1, t1 = p
    x2, y2, z2, t2 = q
    a = (y1 - x1) * (y2 - x2) % P
    b = (y1 + x1) * (y2 + x2) % P
    c = t1 * 2 * D * t2 % P
    d = z1 * 2 * z2 % P
    e, f, g, h = b - a, d - c, d + c, b + a
    return (e * f % P, g * h % P, f * g % P, e * h % P)


def _mul(k, p):
    q = (0, 1, 1, 0)
    while k:
        if k & 1:
            q = _add(q, p)
        p = _add(p, p)
        k >>= 1
    return q


def _is_identity(p):
    x, y, z, _t = p
    return x % P == 0 and (y - z) % P == 0


def _decode(bs):
    """-> (x, y) or None when the encoding is not a curve point (RFC 8032 section 5.1.3)"""
    bs = bytes(bs)
    if len(bs) != 32:
        return None
    y = int.from_bytes(bs, "little")
    sign = y >> 255
    y &= (1 << 255) - 1
    y %= P
    u = (y * y - 1) % P
    v = (D * y * y + 1) % P
    x = (u * pow(v, 3, P)) * pow(u * pow(v, 7, P), (P - 5) // 8, P) % P
    vxx = v * x * x % P
    if vxx == u:
        pass
    elif vxx == (-u) % P:
        x = x * SQRT_M1 % P
    else:
        return None
    if x == 0 and sign:
        return None
    if (x & 1) != sign:
        x = P - x
    return x, y


_cache = {}


def _facts(bs):
    bs = bytes(bs)
    f = _cache.get(bs)
    if f is None:
        xy = _decode(bs)
        if xy is None:
            f = (None, False, False)
        else:
            p = (xy[0], xy[1], 1, xy[0] * xy[1] % P)
            f = (xy, _is_identity(_mul(8, p)), _is_identity(_mul(L, p)))
        if len(_cache) > 4096:
            _cache.clear()
        _cache[bs] = f
    return f


class ge25519:
    @staticmethod
    def has_small_order(s):
        """1 if the encoded point has order 1, 2, 4 or 8, else 0 (libsodium semantics)."""
        xy, small, _main = _facts(s)
        return 1 if (xy is not None and small) else 0


class ge25519_p3:
    def __init__(self, X, Y, Z, T, root_check=False, _main=False):
        self.X, self.Y, self.Z, self.T = X, Y, Z, T
        #: true when the encoding was not a point on the curve (the square root did not exist)
        self.root_check = root_check
        self._main = _main

    @staticmethod
    def from_bytes(bs):
        xy, _small, main = _facts(bs)
        if xy is None:
            return ge25519_p3(fe25519(0), fe25519.from_bytes(bs) if len(bytes(bs)) == 32 else fe25519(1), fe25519(1), fe25519(0), root_check=True)
        x, y = xy
        return ge25519_p3(fe25519(x), fe25519(y), fe25519(1), fe25519(x * y), root_check=False, _main=main)

    def is_on_main_subgroup(self):
        return bool(self._main)
