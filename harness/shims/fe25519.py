"""Stand-in for the third-party `fe25519` package (absent from this sandbox): the field
GF(2^255 - 19) with exactly the operations aiocoap/util/cryptography_additions.py uses
(`one`, `+`, `-`, `*`, `invert`, `to_bytes`) plus what the `ge25519` stand-in needs.
Plain Python integers, no constant-time claims. Not code under test: it replaces a dependency;
harness/oscore_env.group_env() checks it each run (converted public key == X25519 public key
of the converted private key)."""

P = 2**255 - 19


class fe25519:
    __slots__ = ("n",)

    def __init__(self, n=0):
        self.n = int(n) % P

    @staticmethod
    def zero():
        return fe25519(0)

    @staticmethod
    def one():
        return fe25519(1)

    @staticmethod
    def from_bytes(bs):
        bs = bytes(bs)
        if len(bs) != 32:
            raise ValueError("fe25519 needs 32 bytes")
        return fe25519(int.from_bytes(bs, "little") & ((1 << 255) - 1))

    def to_bytes(self):
        return self.n.to_bytes(32, "little")

    def __add__(self, other):
        return fe25519(self.n + other.n)

    def __sub__(self, other):
        return fe25519(self.n - other.n)

    def __neg__(self):
        return fe25519(-self.n)

    def __mul__(self, other):
        return fe25519(self.n * other.n)

    def __eq__(self, other):
        return isinstance(other, fe25519) and self.n == other.n

    def __hash__(self):
        return hash(self.n)

    def invert(self):
        return fe25519(pow(self.n, P - 2, P))

    def is_zero(self):
        return self.n == 0

    def is_negative(self):
        return self.n & 1

    def __repr__(self):
        return "fe25519(%d)" % self.n
