"""Stand-in for the third-party `cbor2` package (absent from this sandbox).

Implements the definite-length RFC 8949 subset that aiocoap/oscore.py uses: unsigned/negative
integers, byte strings, text strings, arrays, maps, false/true/null. Encoding is the
preferred (shortest) serialisation, as cbor2 produces. Wire-exactness is checked on every
OSCORE run against the RFC 8613 Appendix C vectors shipped in /repo/tests/test_oscore.py.
Not code under test: it replaces a dependency."""

import struct


class CBORDecodeError(ValueError):
    pass


class CBOREncodeError(ValueError):
    pass


def _head(major, n):
    if n < 24:
        return bytes([(major << 5) | n])
    if n < 1 << 8:
        return bytes([(major << 5) | 24, n])
    if n < 1 << 16:
        return bytes([(major << 5) | 25]) + n.to_bytes(2, "big")
    if n < 1 << 32:
        return bytes([(major << 5) | 26]) + n.to_bytes(4, "big")
    if n < 1 << 64:
        return bytes([(major << 5) | 27]) + n.to_bytes(8, "big")
    raise CBOREncodeError("integer too large")


def dumps(obj, **kw):
    if obj is False:
        return b"\xf4"
    if obj is True:
        return b"\xf5"
    if obj is None:
        return b"\xf6"
    if isinstance(obj, int):
        return _head(0, obj) if obj >= 0 else _head(1, -1 - obj)
    if isinstance(obj, (bytes, bytearray, memoryview)):
        b = bytes(obj)
        return _head(2, len(b)) + b
    if isinstance(obj, str):
        b = obj.encode("utf8")
        return _head(3, len(b)) + b
    if isinstance(obj, (list, tuple)):
        return _head(4, len(obj)) + b"".join(dumps(x) for x in obj)
    if isinstance(obj, dict):
        return _head(5, len(obj)) + b"".join(dumps(k) + dumps(v) for k, v in obj.items())
    if isinstance(obj, float):
        return b"\xfb" + struct.pack(">d", obj)
    raise CBOREncodeError("cannot serialize type %s" % type(obj).__name__)


def _load(data, pos):
    if pos >= len(data):
        raise CBORDecodeError("premature end of stream")
    ib = data[pos]
    pos += 1
    major, ai = ib >> 5, ib & 31
    if ai < 24:
        n = ai
    elif ai in (24, 25, 26, 27):
        ln = 1 << (ai - 24)
        if pos + ln > len(data):
            raise CBORDecodeError("premature end of stream")
        n = int.from_bytes(data[pos : pos + ln], "big")
        pos += ln
    else:
        if major == 7 and ai == 31:
            raise CBORDecodeError("unexpected break")
        raise CBORDecodeError("indefinite length / reserved additional info not supported")
    if major == 0:
        return n, pos
    if major == 1:
        return -1 - n, pos
    if major in (2, 3):
        if pos + n > len(data):
            raise CBORDecodeError("premature end of stream")
        b = bytes(data[pos : pos + n])
        pos += n
        if major == 3:
            try:
                return b.decode("utf8"), pos
            except UnicodeDecodeError as e:
                raise CBORDecodeError("invalid utf-8") from e
        return b, pos
    if major == 4:
        out = []
        for _ in range(n):
            v, pos = _load(data, pos)
            out.append(v)
        return out, pos
    if major == 5:
        out = {}
        for _ in range(n):
            k, pos = _load(data, pos)
            v, pos = _load(data, pos)
            try:
                out[k] = v
            except TypeError as e:
                raise CBORDecodeError("unhashable map key") from e
        return out, pos
    if major == 6:
        v, pos = _load(data, pos)
        return v, pos
    # major 7
    if ai == 20:
        return False, pos
    if ai == 21:
        return True, pos
    if ai == 22 or ai == 23:
        return None, pos
    if ai == 27:
        return struct.unpack(">d", n.to_bytes(8, "big"))[0], pos
    if ai == 26:
        return struct.unpack(">f", n.to_bytes(4, "big"))[0], pos
    raise CBORDecodeError("unsupported simple value")


def loads(data, **kw):
    data = bytes(data)
    v, pos = _load(data, 0)
    return v


def load(fp, **kw):
    return loads(fp.read())


def dump(obj, fp, **kw):
    fp.write(dumps(obj))
