"""Stand-in for the third-party `filelock` package (absent from this sandbox): FileLock on
fcntl.flock with the acquire/release/timeout subset aiocoap/oscore.py uses."""

import fcntl
import os
import time as _t


class Timeout(TimeoutError):
    def __init__(self, lock_file=None):
        super().__init__("The file lock '%s' could not be acquired." % lock_file)
        self.lock_file = lock_file


class FileLock:
    def __init__(self, lock_file, timeout=-1, **kw):
        self.lock_file = os.fspath(lock_file)
        self.timeout = timeout
        self._fd = None
        self._count = 0

    @property
    def is_locked(self):
        return self._fd is not None

    def acquire(self, timeout=None, poll_interval=0.05, **kw):
        if timeout is None:
            timeout = self.timeout
        if self._fd is not None:
            self._count += 1
            return self
        fd = os.open(self.lock_file, os.O_RDWR | os.O_CREAT | os.O_TRUNC, 0o644)
        start = _t.monotonic()
        while True:
            try:
                fcntl.flock(fd, fcntl.LOCK_EX | fcntl.LOCK_NB)
                break
            except OSError:
                if timeout is not None and timeout >= 0 and _t.monotonic() - start >= timeout:
                    os.close(fd)
                    raise Timeout(self.lock_file)
                _t.sleep(poll_interval if timeout != 0 else 0)
                if timeout == 0:
                    os.close(fd)
                    raise Timeout(self.lock_file)
        self._fd = fd
        self._count = 1
        return self

    def release(self, force=False):
        if self._fd is None:
            return
        self._count -= 1
        if self._count > 0 and not force:
            return
        fd, self._fd = self._fd, None
        self._count = 0
        try:
            fcntl.flock(fd, fcntl.LOCK_UN)
        finally:
            os.close(fd)

    def __enter__(self):
        return self.acquire()

    def __exit__(self, *a):
        self.release()

    def __del__(self):
        try:
            self.release(force=True)
        except Exception:
            pass
