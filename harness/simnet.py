"""Simulated datagram network for the real aiocoap UDP stack.

The node under test is created by the *real* `Context.create_server_context` /
`create_client_context` with `transports={"udp6": {"bind": [...]}}`; only three
names in `aiocoap.transports.udp6` are replaced: `socket` (a proxy whose
`socket()` returns a `FakeSock`), `getaddrinfo` (resolver for literal simulated
addresses) and nothing else. `MessageInterfaceUDP6` therefore runs on the real
`RecvmsgSelectorDatagramTransport`.

All sends and deliveries are logged at the wire with virtual time.
"""

import asyncio
import contextvars
import ipaddress
import socket as _socket
import struct

from . import refcodec

_in6_pktinfo = struct.Struct("16sI")
MCAST = "ff02::fd"


def norm_ip(ip):
    """Canonical IPv6 text form; IPv4 literals become v4-mapped."""
    a = ipaddress.ip_address(ip.split("%")[0])
    if isinstance(a, ipaddress.IPv4Address):
        return "::ffff:" + str(a)
    m = a.ipv4_mapped
    if m is not None:
        return "::ffff:" + str(m)
    return str(a)


def addr(ip, port):
    return (norm_ip(ip), int(port))


class WireEvent:
    __slots__ = ("t", "kind", "src", "dst", "data", "msg", "note", "idx", "seq", "cause")

    def __init__(self, t, kind, src, dst, data, note=None, idx=None):
        self.seq = None  # position in the wire log
        self.cause = None  # for 'send': seq of the 'deliver'/'error' event during whose synchronous processing it was emitted
        self.t = t
        self.kind = kind  # 'send' | 'deliver' | 'drop' | 'error'
        self.src = src
        self.dst = dst
        self.data = data
        self.note = note
        self.idx = idx
        try:
            self.msg = refcodec.parse(data) if data is not None else None
        except refcodec.Malformed:
            self.msg = None

    def brief(self):
        d = {"t": round(self.t, 6), "kind": self.kind, "src": list(self.src) if self.src else None, "dst": list(self.dst) if self.dst else None}
        if self.msg is not None:
            d.update(refcodec.describe(self.msg))
        elif self.data is not None:
            d["raw"] = self.data.hex()
        if self.note:
            d["note"] = self.note
        return d


class Policy:
    """Per-datagram fate. Default: deliver once after `latency`."""

    def __init__(self, latency=0.001):
        self.latency = latency

    def fate(self, net, src, dst, data, idx):
        """Return list of delays (one delivery per entry); [] drops."""
        return [self.latency]


class RandomPolicy(Policy):
    def __init__(self, rng, p_drop=0.1, p_dup=0.1, max_delay=0.5, latency=0.001, p_delay=0.3):
        super().__init__(latency)
        self.rng = rng
        self.p_drop, self.p_dup, self.max_delay, self.p_delay = p_drop, p_dup, max_delay, p_delay

    def fate(self, net, src, dst, data, idx):
        r = self.rng
        if r.random() < self.p_drop:
            return []
        n = 1
        while r.random() < self.p_dup and n < 4:
            n += 1
        out = []
        for _ in range(n):
            if r.random() < self.p_delay:
                out.append(self.latency + r.random() * self.max_delay)
            else:
                out.append(self.latency)
        return out


class ScriptPolicy(Policy):
    """fate by callable(net, src, dst, data, idx, parsed_msg) -> list of delays"""

    def __init__(self, fn, latency=0.001):
        super().__init__(latency)
        self.fn = fn

    def fate(self, net, src, dst, data, idx):
        try:
            m = refcodec.parse(data)
        except refcodec.Malformed:
            m = None
        r = self.fn(net, src, dst, data, idx, m)
        if r is None:
            return [self.latency]
        return r


class SimNet:
    def __init__(self, loop, policy=None):
        self.loop = loop
        self.policy = policy or Policy()
        self.endpoints = {}  # (ip, port) -> endpoint with ._net_deliver(data, src, dst)
        self.log = []  # WireEvent
        self.sent = 0
        self._delivering = None
        self.unreachable = {}  # (ip, port) or ip -> errno: sendmsg towards it fails synchronously (ENETUNREACH, EPERM ...)
        self.refuse = []  # callables(src, dst, data) -> errno or None: refusal of one particular datagram (EMSGSIZE ...)
        self.on_event = []  # callbacks(WireEvent) for online monitors
        self.after_delivery = []  # callbacks() at quiescent points

    # -- endpoint registry --------------------------------------------------
    def register(self, a, ep):
        self.endpoints[a] = ep

    def unregister(self, a):
        self.endpoints.pop(a, None)

    def _lookup(self, dst):
        ep = self.endpoints.get(dst)
        if ep is not None:
            return ep
        # wildcard bind [::]:port
        ep = self.endpoints.get(("::", dst[1]))
        if ep is not None:
            return ep
        a = ipaddress.ip_address(dst[0])
        a = getattr(a, "ipv4_mapped", None) or a  # an IPv4 group reaches a dual-stack socket as ::ffff:a.b.c.d
        if a.is_multicast:
            for (ip, port), e in self.endpoints.items():
                if port == dst[1] and getattr(e, "joins_multicast", False):
                    return e
        return None

    # -- sending ------------------------------------------------------------
    def _emit(self, ev):
        ev.seq = len(self.log)
        if ev.kind == "send":
            ev.cause = self._delivering
        self.log.append(ev)
        for cb in self.on_event:
            cb(ev)

    def send(self, src, dst, data, fate=None):
        data = bytes(data)
        idx = self.sent
        self.sent += 1
        self._emit(WireEvent(self.loop.time(), "send", src, dst, data, idx=idx))
        delays = self.policy.fate(self, src, dst, data, idx) if fate is None else fate
        if not delays:
            self._emit(WireEvent(self.loop.time(), "drop", src, dst, data, note="lost", idx=idx))
            return
        for d in delays:
            # a fresh context per delivery: a real network does not carry the sender's contextvars to the receiver
            self.loop.call_later(d, self._deliver, src, dst, data, idx, context=contextvars.Context())

    def inject(self, src, dst, data, delay=0.0):
        """A datagram that appears on the wire without any endpoint's send (forgery)."""
        idx = self.sent
        self.sent += 1
        self._emit(WireEvent(self.loop.time(), "send", src, dst, bytes(data), note="injected", idx=idx))
        self.loop.call_later(delay, self._deliver, src, dst, bytes(data), idx, context=contextvars.Context())

    def _deliver(self, src, dst, data, idx):
        ep = self._lookup(dst)
        if ep is None or getattr(ep, "closed", False):
            self._emit(WireEvent(self.loop.time(), "drop", src, dst, data, note="no listener", idx=idx))
            return
        ev = WireEvent(self.loop.time(), "deliver", src, dst, data, idx=idx)
        self._emit(ev)
        prev, self._delivering = self._delivering, ev.seq
        try:
            ep._net_deliver(data, src, dst)
        finally:
            self._delivering = prev
        for cb in self.after_delivery:
            cb()

    def inject_error(self, at, about, errno_value, delay=0.0):
        """ICMP-style error reported to endpoint `at` about remote `about`."""

        def go():
            ep = self._lookup(at)
            if ep is None or getattr(ep, "closed", False):
                return
            ev = WireEvent(self.loop.time(), "error", about, at, None, note="errno %d" % errno_value)
            self._emit(ev)
            prev, self._delivering = self._delivering, ev.seq
            try:
                ep._net_error(about, errno_value)
            finally:
                self._delivering = prev
            for cb in self.after_delivery:
                cb()

        self.loop.call_later(delay, go, context=contextvars.Context())

    # -- helpers for oracles --------------------------------------------------
    def events(self, kind=None, src=None, dst=None):
        for e in self.log:
            if kind is not None and e.kind != kind:
                continue
            if src is not None and e.src != src:
                continue
            if dst is not None and e.dst != dst:
                continue
            yield e

    def dump(self, last=80):
        return [e.brief() for e in self.log[-last:]]


class FakeSock:
    """What MessageInterfaceUDP6 / RecvmsgSelectorDatagramTransport see as socket."""

    def __init__(self, net):
        self.net = net
        self._real = _socket.socket(_socket.AF_INET6, _socket.SOCK_DGRAM)
        self._real.setblocking(False)
        self.addr = None
        self.closed = False
        self.protocol = None  # set by the factory wrapper
        self.joins_multicast = True
        self.sends_after_close = 0

    # socket API used by udp6 / recvmsg
    def setsockopt(self, *a):
        pass

    def setblocking(self, flag):
        pass

    def fileno(self):
        return self._real.fileno()

    def bind(self, sockaddr):
        ip, port = sockaddr[0], sockaddr[1]
        if port == 0:
            port = self.net._ephemeral = getattr(self.net, "_ephemeral", 40000) + 1
        self.addr = (norm_ip(ip) if ip not in ("::", "") else "::", port)
        self.net.register(self.addr, self)

    def getsockname(self):
        if self.addr is None:
            return ("::", 0, 0, 0)
        return (self.addr[0], self.addr[1], 0, 0)

    def recvmsg(self, *a):
        raise BlockingIOError()

    def sendmsg(self, buffers, ancdata, flags, address):
        if self.closed:
            self.sends_after_close += 1
            raise OSError(9, "Bad file descriptor")
        data = b"".join(buffers)
        src_ip = None
        for level, typ, d in ancdata:
            if level == _socket.IPPROTO_IPV6 and typ == _socket.IPV6_PKTINFO:
                a, _ifidx = _in6_pktinfo.unpack_from(d)
                a = str(ipaddress.IPv6Address(a))
                if a not in ("::", "::ffff:0.0.0.0"):
                    src_ip = norm_ip(a)
        if src_ip is None:
            src_ip = self.addr[0] if self.addr and self.addr[0] != "::" else self.net_default_ip
        src = (src_ip, self.addr[1] if self.addr else 0)
        dst = (norm_ip(address[0]), address[1])
        err = self.net.unreachable.get(dst, self.net.unreachable.get(dst[0]))
        for f in self.net.refuse:
            err = err or f(src, dst, data)
        if err:
            # the operating system refuses the datagram right away: nothing reaches the wire
            self.net._emit(WireEvent(self.net.loop.time(), "senderror", src, dst, data, note="errno %d" % err))
            raise OSError(err, "simulated synchronous send failure")
        self.net.send(src, dst, data)
        return len(data)

    net_default_ip = "::ffff:10.9.9.9"

    def close(self):
        self.closed = True
        if self.addr is not None:
            self.net.unregister(self.addr)
        self._real.close()

    # network side
    def _net_deliver(self, data, src, dst):
        if self.closed or self.protocol is None:
            return
        pktinfo = _in6_pktinfo.pack(ipaddress.IPv6Address(dst[0]).packed, 0)
        self.protocol.datagram_msg_received(
            data,
            [(_socket.IPPROTO_IPV6, _socket.IPV6_PKTINFO, pktinfo)],
            0,
            (src[0], src[1], 0, 0),
        )

    def _net_error(self, about, errno_value):
        if self.closed or self.protocol is None:
            return
        from aiocoap.util import socknumbers

        ee = struct.pack("IbbbbII", errno_value, 2, 3, 3, 0, 0, 0)
        self.protocol.datagram_errqueue_received(
            b"",
            [(_socket.IPPROTO_IPV6, socknumbers.IPV6_RECVERR, ee)],
            socknumbers.MSG_ERRQUEUE,
            (about[0], about[1], 0, 0),
        )


class _SocketProxy:
    """Stands in for the `socket` module inside aiocoap.transports.udp6."""

    def __init__(self):
        self.net = None
        self.created = []

    def socket(self, *a, **kw):
        s = FakeSock(self.net)
        self.created.append(s)
        return s

    def __getattr__(self, name):
        return getattr(_socket, name)


# Host names that resolve, slowly: name -> (seconds the resolver takes, address). To the loop a resolver that runs in an
# executor thread is an await that ends after that long; literal addresses are untouched. Empty by default; a check
# that wants slow names fills it in (and owns the names it puts there).
SLOW_NAMES = {}


async def _sim_getaddrinfo(loop, log, host, port):
    slow = SLOW_NAMES.get(host)
    if slow is not None:
        await asyncio.sleep(slow[0])
        yield (norm_ip(slow[1]), port, 0, 0)
        return
    try:
        ip = norm_ip(host)
    except ValueError:
        raise _socket.gaierror(-2, "Name or service not known (simnet)")
    yield (ip, port, 0, 0)


_proxy = None


def install():
    """Permanently replace socket / getaddrinfo / endpoint factory in aiocoap.transports.udp6."""
    global _proxy
    if _proxy is not None:
        return _proxy
    import aiocoap.transports.udp6 as u

    _proxy = _SocketProxy()
    u.socket = _proxy
    u.getaddrinfo = _sim_getaddrinfo
    real_create = u.create_recvmsg_datagram_endpoint

    async def create(loop, factory, sock):
        transport, protocol = await real_create(loop, factory, sock)
        sock.protocol = protocol
        return transport, protocol

    u.create_recvmsg_datagram_endpoint = create
    return _proxy


async def make_context(net, bind_ip, port, site=None, server=True, loggername=None):
    """Create a real aiocoap Context on the simulated network."""
    import aiocoap
    from aiocoap.util import hostportjoin

    p = install()
    p.net = net
    p.created = []
    bind = hostportjoin(norm_ip(bind_ip), port)
    if server:
        ctx = await aiocoap.Context.create_server_context(
            site, transports={"udp6": {"bind": [bind]}}, loggername=loggername or "coap-server"
        )
    else:
        ctx = await aiocoap.Context.create_client_context(
            transports={"udp6": {"bind": [bind]}}, loggername=loggername or "coap"
        )
    ctx._sim_socks = list(p.created)
    return ctx


class RawPeer:
    """A raw endpoint speaking through refcodec; scripted by `on_msg`."""

    def __init__(self, net, ip, port, on_msg=None):
        self.net = net
        self.addr = addr(ip, port)
        self.on_msg = on_msg
        self.inbox = []  # (t, src, Msg|None, raw)
        self.closed = False
        self.mid = 0x1000
        self.joins_multicast = False
        net.register(self.addr, self)

    def _net_deliver(self, data, src, dst):
        try:
            m = refcodec.parse(data)
        except refcodec.Malformed:
            m = None
        self.inbox.append((self.net.loop.time(), src, m, data))
        if self.on_msg is not None:
            self.on_msg(self, src, m, data)

    def _net_error(self, about, errno_value):
        pass

    def next_mid(self):
        self.mid = (self.mid + 1) & 0xFFFF
        return self.mid

    def send(self, dst, msg_or_bytes, fate=None):
        data = msg_or_bytes if isinstance(msg_or_bytes, (bytes, bytearray)) else refcodec.encode(msg_or_bytes)
        self.net.send(self.addr, dst, data, fate=fate)

    def close(self):
        self.closed = True
        self.net.unregister(self.addr)
