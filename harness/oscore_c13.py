"""C13 helpers (OSCORE nonce non-reuse across restarts and crashes).

* `Gate` + `install()` — interposition of every file-system call aiocoap/oscore.py makes when
  persisting (`tempfile.mkstemp`, `io.open`/`open`/`os.fdopen` file objects with their
  write/flush/close, `os.fsync`, `os.replace`/`os.rename`, `os.unlink`, ...). It is done by
  replacing the module attributes `oscore.os`, `oscore.tempfile`, `oscore.io`, `oscore.open`
  with proxies, so only calls written in oscore.py are gated. Each performed *effect* is
  numbered; after effect k the gate can "kill the process": in-process by raising `Crash`
  (a BaseException) and refusing every further effect, or in a child process by `os._exit`.
  File objects are our own unbuffered-fd wrapper with an explicit user-space buffer, so data
  that a dying process had only buffered is lost exactly as it would be.
  An audit hook reports file-system modifications made from oscore.py that did not pass
  through the proxies (=> the check turns inconclusive instead of silently missing effects).
  Instead of dying, the gate can also make chosen operations *fail* (`fail_at`): the call raises
  OSError before anything happens on disk and the process lives on.
* `parse_oscore_option` — independent parser of the compressed OSCORE option (RFC 8613 6.1).
* `Peer`, `make_dir`, `Lifetime`, `run_ops`, `snapshot` — scratch context directories and the
  history runner shared by the in-process mode and the child driver (oscore_c13child.py).

Nothing here is code under test."""

import gc
import io as _io
import json
import os as _os
import sys
import tempfile as _tempfile

import aiocoap
from aiocoap import oscore
from aiocoap.message import Message, Direction

from harness import refcodec

SECRET = bytes.fromhex("0102030405060708090a0b0c0d0e0f10")
SALT = bytes.fromhex("9e7ca92223786340")
OWN_ID = b"\x5e"  # sender id of the file-backed context under test
PEER_ID = b"\xc1"
ALG = "AES-CCM-16-64-128"
MAX_SEQNO = 2**40 - 1  # RFC 8613 / statement: protection is refused at this value
EXIT_CRASH = 77


# ------------------------------------------------------------------------- gate
class Crash(BaseException):
    """The process died here."""


class Gate:
    def __init__(self):
        self.n = 0
        self.crash_after = None
        self.dead = False
        self.depth = 0
        self.observer = None
        self.exit_mode = False
        self.trace = []
        self.bypassed = []
        self.enabled = False
        self.fail_at = set()
        self.failed = 0

    def reset(self, crash_after=None, fail_at=()):
        self.n = 0
        self.crash_after = crash_after
        self.dead = False
        self.trace = []
        self.fail_at = set(fail_at)
        self.failed = 0

    def before(self):
        if self.dead:
            raise Crash("dead process")
        if self.fail_at and (self.n + 1) in self.fail_at:
            # the operating system refuses the file-system operation that would have been effect n+1 (disk full,
            # descriptor table full, read-only remount ...): nothing happens on disk, the process lives on
            self.n += 1
            self.failed += 1
            self.trace.append(("FAILED", ""))
            raise OSError(28, "No space left on device (injected)")

    def effect(self, name, detail=""):
        self.n += 1
        self.trace.append((name, detail))
        if self.observer is not None:
            self.observer(self.n, name, detail)
        if self.crash_after is not None and self.n == self.crash_after:
            self.dead = True
            if self.exit_mode:
                _os._exit(EXIT_CRASH)
            raise Crash("after effect %d (%s)" % (self.n, name))

    def call(self, fn, *a, **kw):
        self.depth += 1
        try:
            return fn(*a, **kw)
        finally:
            self.depth -= 1


GATE = Gate()


def _base(p):
    try:
        b = _os.path.basename(_os.fspath(p))
    except TypeError:
        return "?"
    if isinstance(b, bytes):
        b = b.decode("utf8", "replace")
    if b.startswith(".sequence-"):
        return ".sequence-*.json"
    return b


def _writing(mode):
    return any(c in mode for c in "wax+")


class GatedFile:
    """File object over a raw fd with an explicit user-space buffer."""

    def __init__(self, gate, fd, mode, name=None, delete=None):
        self.gate = gate
        self.fd = fd
        self.binary = "b" in mode
        self.buf = bytearray()
        self.closed = False
        self.name = name if name is not None else fd
        self.mode = mode
        self._delete = delete

    def write(self, data):
        self.gate.before()
        if not self.binary:
            if not isinstance(data, str):
                raise TypeError("write() argument must be str")
            data = data.encode("utf8")
        self.buf += data
        return len(data)

    def writelines(self, lines):
        for ln in lines:
            self.write(ln)

    def flush(self):
        self.gate.before()
        if self.buf:
            data = bytes(self.buf)
            self.buf.clear()
            done = 0
            while done < len(data):
                done += self.gate.call(_os.write, self.fd, data[done:])
            self.gate.effect("write", "%d bytes" % len(data))

    def fileno(self):
        return self.fd

    def seek(self, pos, whence=0):
        self.flush()
        return _os.lseek(self.fd, pos, whence)

    def tell(self):
        return _os.lseek(self.fd, 0, 1) + len(self.buf)

    def truncate(self, size=None):
        self.flush()
        if size is None:
            size = _os.lseek(self.fd, 0, 1)
        self.gate.call(_os.ftruncate, self.fd, size)
        self.gate.effect("truncate", "")
        return size

    def read(self, n=-1):
        self.flush()
        chunks = []
        while n != 0:
            c = _os.read(self.fd, 65536 if n < 0 else n)
            if not c:
                break
            chunks.append(c)
            if n > 0:
                n -= len(c)
        data = b"".join(chunks)
        return data if self.binary else data.decode("utf8")

    def close(self):
        if self.closed:
            return
        try:
            if not self.gate.dead:
                self.flush()
        finally:
            self.closed = True
            try:
                _os.close(self.fd)
            except OSError:
                pass
        if self._delete is not None and not self.gate.dead:
            self.gate.call(_os.unlink, self._delete)
            self.gate.effect("unlink", _base(self._delete))

    def __enter__(self):
        return self

    def __exit__(self, *a):
        self.close()

    def __del__(self):
        if not self.closed:
            self.closed = True
            try:
                _os.close(self.fd)
            except OSError:
                pass


_MODE_FLAGS = {"r": _os.O_RDONLY, "w": _os.O_WRONLY | _os.O_CREAT | _os.O_TRUNC, "a": _os.O_WRONLY | _os.O_CREAT | _os.O_APPEND, "x": _os.O_WRONLY | _os.O_CREAT | _os.O_EXCL}


def _gated_open(gate, real_open, file, mode="r", *a, **kw):
    if not _writing(mode):
        return gate.call(real_open, file, mode, *a, **kw)
    gate.before()
    if isinstance(file, int):
        return GatedFile(gate, file, mode)
    flags = _MODE_FLAGS[[c for c in mode if c in "rwax"][0]]
    if "+" in mode:
        flags = (flags & ~(_os.O_WRONLY | _os.O_RDONLY)) | _os.O_RDWR
    fd = gate.call(_os.open, file, flags, 0o666)
    gate.effect("open-" + "".join(c for c in mode if c in "wax+r"), _base(file))
    return GatedFile(gate, fd, mode, name=file)


class OsProxy:
    _EFFECTS = ("truncate", "ftruncate", "link", "symlink", "mkdir", "makedirs", "rmdir", "removedirs", "chmod", "fdatasync", "sync")

    def __init__(self, gate):
        self._g = gate

    def __getattr__(self, name):
        real = getattr(_os, name)
        if name in self._EFFECTS:
            g = self._g

            def gated(*a, **kw):
                g.before()
                r = g.call(real, *a, **kw)
                g.effect(name, "")
                return r

            return gated
        return real

    def fsync(self, fd):
        self._g.before()
        self._g.call(_os.fsync, fd)
        self._g.effect("fsync", "")

    def replace(self, src, dst, **kw):
        self._g.before()
        self._g.call(_os.replace, src, dst, **kw)
        self._g.effect("replace", _base(dst))

    def rename(self, src, dst, **kw):
        self._g.before()
        self._g.call(_os.rename, src, dst, **kw)
        self._g.effect("rename", _base(dst))

    def unlink(self, path, **kw):
        self._g.before()
        self._g.call(_os.unlink, path, **kw)
        self._g.effect("unlink", _base(path))

    remove = unlink

    def open(self, path, flags, mode=0o777, **kw):
        self._g.before()
        fd = self._g.call(_os.open, path, flags, mode, **kw)
        if flags & (_os.O_WRONLY | _os.O_RDWR | _os.O_CREAT | _os.O_TRUNC | _os.O_APPEND):
            self._g.effect("os.open", _base(path))
        return fd

    def write(self, fd, data):
        self._g.before()
        n = self._g.call(_os.write, fd, data)
        self._g.effect("os.write", "%d bytes" % n)
        return n

    def close(self, fd):
        try:
            _os.close(fd)
        except OSError:
            if not self._g.dead:
                raise

    def fdopen(self, fd, mode="r", *a, **kw):
        if _writing(mode):
            self._g.before()
            return GatedFile(self._g, fd, mode)
        return _os.fdopen(fd, mode, *a, **kw)


class TempfileProxy:
    def __init__(self, gate):
        self._g = gate

    def __getattr__(self, name):
        return getattr(_tempfile, name)

    def mkstemp(self, *a, **kw):
        self._g.before()
        r = self._g.call(_tempfile.mkstemp, *a, **kw)
        self._g.effect("mkstemp", _base(r[1]))
        return r

    def NamedTemporaryFile(self, mode="w+b", buffering=-1, encoding=None, newline=None, suffix=None, prefix=None, dir=None, delete=True, **kw):
        self._g.before()
        fd, name = self._g.call(_tempfile.mkstemp, suffix=suffix, prefix=prefix, dir=dir)
        self._g.effect("mkstemp", _base(name))
        return GatedFile(self._g, fd, mode, name=name, delete=name if delete else None)


class IoProxy:
    def __init__(self, gate):
        self._g = gate

    def __getattr__(self, name):
        return getattr(_io, name)

    def open(self, file, mode="r", *a, **kw):
        return _gated_open(self._g, _io.open, file, mode, *a, **kw)


_STDLIB = _os.path.dirname(_os.__file__) + _os.sep
_AUDIT_EVENTS = {"os.rename", "os.remove", "os.truncate", "os.mkdir", "os.rmdir", "os.link", "os.symlink", "tempfile.mkstemp", "open", "shutil.move", "shutil.copyfile", "os.chmod"}
_WFLAGS = _os.O_WRONLY | _os.O_RDWR | _os.O_CREAT | _os.O_TRUNC | _os.O_APPEND


def _audit(event, args):
    g = GATE
    if not g.enabled or g.depth or event not in _AUDIT_EVENTS:
        return
    if event == "open":
        try:
            flags = args[2]
            if not isinstance(flags, int) or not flags & _WFLAGS:
                return
        except Exception:
            return
    # whose call is it? innermost frame outside the standard library
    f = sys._getframe(1)
    while f is not None and (f.f_code.co_filename.startswith(_STDLIB) or f.f_code.co_filename.startswith("<")):
        f = f.f_back
    if f is not None and f.f_code.co_filename.replace("\\", "/").endswith("aiocoap/oscore.py"):
        what = "%s %s at oscore.py:%d" % (event, _base(args[0]) if args else "", f.f_lineno)
        if what not in g.bypassed and len(g.bypassed) < 20:
            g.bypassed.append(what)


_installed = []


def install():
    """Route oscore.py's own file-system calls through GATE."""
    if _installed:
        return GATE
    g = GATE
    oscore.os = OsProxy(g)
    oscore.tempfile = TempfileProxy(g)
    oscore.io = IoProxy(g)

    def gated_builtin_open(file, mode="r", *a, **kw):
        return _gated_open(g, open, file, mode, *a, **kw)

    oscore.open = gated_builtin_open
    sys.addaudithook(_audit)
    g.enabled = True
    _installed.append(True)
    return g


# ------------------------------------------------------------------------- option parser
class BadOption(Exception):
    pass


def parse_oscore_option(v):
    """RFC 8613 section 6.1: flag byte 0 0 0 h k n(3 bits), partial IV, [s, kid context], kid."""
    v = bytes(v)
    if v == b"":
        return {"piv": None, "kid": None, "kid_context": None}
    flags = v[0]
    n = flags & 0x07
    if flags & 0xE0 or n in (6, 7):
        raise BadOption("reserved bits / length")
    rest = v[1:]
    if len(rest) < n:
        raise BadOption("partial IV truncated")
    piv = rest[:n] if n else None
    rest = rest[n:]
    ctx = None
    if flags & 0x10:
        if not rest or len(rest) < 1 + rest[0]:
            raise BadOption("kid context truncated")
        ctx = rest[1 : 1 + rest[0]]
        rest = rest[1 + rest[0] :]
    kid = None
    if flags & 0x08:
        kid = rest
    elif rest:
        raise BadOption("trailing bytes without k flag")
    return {"piv": piv, "kid": kid, "kid_context": ctx}


def wire_piv(outer, mid=1):
    """The partial IV (as int, or None) of a message returned by protect(), read from its
    serialised bytes with the independent codec and option parser."""
    outer.mtype = aiocoap.NON
    outer.mid = mid
    outer.token = b""
    data = outer.encode()
    m = refcodec.parse(data)
    vals = [v for (num, v) in m.options if num == 9]
    if len(vals) != 1:
        raise BadOption("expected exactly one OSCORE option, found %d" % len(vals))
    p = parse_oscore_option(vals[0])
    if p["piv"] is None:
        return None, data
    return int.from_bytes(p["piv"], "big"), data


# ------------------------------------------------------------------------- directories
def make_dir(path, window=None, sequence=None):
    _os.makedirs(path, exist_ok=True)
    settings = {
        "algorithm": ALG,
        "sender-id_hex": OWN_ID.hex(),
        "recipient-id_hex": PEER_ID.hex(),
        "secret_hex": SECRET.hex(),
        "salt_hex": SALT.hex(),
    }
    if window is not None:
        settings["window"] = window
    with open(_os.path.join(path, "settings.json"), "w") as f:
        json.dump(settings, f)
    if sequence is not None:
        with open(_os.path.join(path, "sequence.json"), "w") as f:
            json.dump(sequence, f)
    return path


def read_sequence(path):
    """Independent look at sequence.json: ("absent", None) | ("ok", dict) | ("invalid", raw)."""
    p = _os.path.join(path, "sequence.json")
    try:
        with open(p, "rb") as f:
            raw = f.read()
    except FileNotFoundError:
        return "absent", None
    try:
        d = json.loads(raw.decode("utf8"))
    except (ValueError, UnicodeDecodeError):
        return "invalid", raw[:200].decode("latin1")
    if not isinstance(d, dict) or not isinstance(d.get("next-to-send"), int) or isinstance(d.get("next-to-send"), bool) or "received" not in d:
        return "invalid", raw[:200].decode("latin1")
    return "ok", d


def snapshot(path):
    """Directory contents, normalised over random temp-file names."""
    out = {}
    tmps = []
    for name in sorted(_os.listdir(path)):
        with open(_os.path.join(path, name), "rb") as f:
            data = f.read()
        if name.startswith(".sequence-"):
            tmps.append(data.decode("latin1"))
        elif name == "lock":
            out[name] = "present"
        else:
            out[name] = data.decode("latin1")
    out[".sequence-*.json"] = sorted(tmps)
    return out


# ------------------------------------------------------------------------- peer
class PeerContext(oscore.CanProtect, oscore.CanUnprotect, oscore.SecurityContextUtils):
    """In-memory context of the other party (construction as in tests/test_oscore.py)."""

    echo_recovery = None

    def __init__(self):
        self.alg_aead = oscore.algorithms[ALG]
        self.hashfun = oscore.hashfunctions["sha256"]
        self.sender_id = PEER_ID
        self.recipient_id = OWN_ID
        self.id_context = None
        self.derive_keys(SALT, SECRET)
        self.sender_sequence_number = 0
        self.recipient_replay_window = oscore.ReplayWindow(32, lambda: None)
        self.recipient_replay_window.initialize_empty()

    def post_seqnoincrease(self):
        pass


def incoming(wire):
    code, option, payload = wire
    m = Message(code=code, oscore=option, payload=payload)
    m.direction = Direction.INCOMING
    return m


def wire_of(outer):
    return (int(outer.code), bytes(outer.opt.oscore), bytes(outer.payload))


class Peer:
    def __init__(self):
        self.ctx = PeerContext()
        self.cache = {}

    def request(self, n, echo=None):
        key = (n, echo)
        got = self.cache.get(key)
        if got is None:
            self.ctx.sender_sequence_number = n
            m = Message(code=aiocoap.GET, uri_path=("r",))
            if echo is not None:
                m.opt.echo = echo
            outer, rid = self.ctx.protect(m)
            got = (wire_of(outer), rid)
            self.cache[key] = got
        return got

    def echo_from(self, resp_outer, rid):
        plain, _ = self.ctx.unprotect(incoming(wire_of(resp_outer)), rid)
        return plain.opt.echo


# ------------------------------------------------------------------------- lifetimes
def chunk_kwargs(chunk):
    if chunk is None:
        return {}
    import inspect

    params = inspect.signature(oscore.FilesystemSecurityContext.__init__).parameters
    if "sequence_number_chunksize_start" in params and "sequence_number_chunksize_limit" in params:
        return {"sequence_number_chunksize_start": chunk[0], "sequence_number_chunksize_limit": chunk[1]}
    return None


class Recorder:
    """Receives what crossed the API boundary. Subclassed by the check (oracles) and by the
    child driver (log file)."""

    def issued(self, piv, how, data):
        pass

    def refused(self, how, exc):
        pass

    def protect_raised(self, how, exc):
        pass

    def accepted(self, n, echo):
        pass

    def rejected(self, n, echo, exc):
        pass

    def note(self, what):
        pass


class Lifetime:
    """One process lifetime of the file-backed context on `path`."""

    def __init__(self, path, peer, rec, chunk=None):
        self.path = path
        self.peer = peer
        self.rec = rec
        kw = chunk_kwargs(chunk)
        if kw is None:
            kw = {}
            rec.note("chunk-parameters-not-constructor-arguments")
        self.ctx = oscore.FilesystemSecurityContext(path, **kw)
        self.mid = 0

    # -- single API calls ----------------------------------------------------
    def _protect(self, how, msg, request_id=None, answering=None):
        try:
            outer, rid = self.ctx.protect(msg, request_id) if request_id is not None else self.ctx.protect(msg)
        except oscore.ContextUnavailable as e:
            self.rec.refused(how, e)
            return None
        except Exception as e:  # noqa: BLE001 - recorded, judged by the check
            self.rec.protect_raised(how, e)
            return None
        self._issued(how, outer, answering)
        return outer, rid

    def _issued(self, how, outer, answering=None):
        self.mid = (self.mid + 1) & 0xFFFF
        piv, data = wire_piv(outer, self.mid)
        if piv is None and answering is not None:
            # no Partial IV of its own: the message was protected under the nonce of the request it answers
            # (the peer's sender ID and sequence number `answering`)
            how = "%s@%d" % (how, answering)
        self.rec.issued(piv, how, data)

    def initialised(self):
        w = getattr(self.ctx, "recipient_replay_window", None)
        try:
            return bool(w.is_initialized())
        except Exception:  # noqa: BLE001
            return None

    def deliver(self, n, echo=None, responses=1):
        """Unprotect the peer's request number n; answer it `responses` times if accepted.
        Returns 'A', 'R' or the echo bytes obtained from a 4.01."""
        wire, rid_peer = self.peer.request(n, echo)
        try:
            _plain, rid = self.ctx.unprotect(incoming(wire))
        except oscore.ReplayErrorWithEcho as e:
            self.rec.rejected(n, echo, e)
            try:
                resp = e.to_message()
            except oscore.ContextUnavailable as e2:
                self.rec.refused("echo-4.01", e2)
                return "R"
            except Exception as e2:  # noqa: BLE001
                self.rec.protect_raised("echo-4.01", e2)
                return "R"
            self._issued("echo-4.01", resp, n)
            try:
                return self.peer.echo_from(resp, rid_peer) or "R"
            except Exception as e3:  # noqa: BLE001
                self.rec.note("peer-could-not-read-4.01/%s" % type(e3).__name__)
                return "R"
        except oscore.ProtectionInvalid as e:
            self.rec.rejected(n, echo, e)
            return "R"
        except Exception as e:  # noqa: BLE001 - not this property's subject (C12); recorded
            self.rec.rejected(n, echo, e)
            self.rec.note("unprotect-raised/%s" % type(e).__name__)
            return "R"
        self.rec.accepted(n, echo)
        for _ in range(responses):
            self._protect("response", Message(code=aiocoap.CONTENT, payload=b"x"), rid, answering=n)
        return "A"

    def op(self, op, st):
        """st: mutable dict shared over lifetimes: {'peer_next': int}"""
        kind = op[0]
        if kind == "P":
            self._protect("request", Message(code=aiocoap.GET, uri_path=("q",)))
        elif kind == "R":
            n = op[1]
            if n == "fresh":
                n = st["peer_next"]
                st["peer_next"] += 1
            else:
                # the peer's own numbers only grow: whatever it sends later is above this one
                st["peer_next"] = max(st["peer_next"], n + 1)
            self.deliver(n, None, op[2] if len(op) > 2 else 1)
        elif kind == "E":
            # B.1.2: Echo-less request -> 4.01 with Echo -> request with Echo
            n = st["peer_next"]
            st["peer_next"] += 1
            r = self.deliver(n)
            if isinstance(r, bytes):
                n2 = st["peer_next"]
                st["peer_next"] += 1
                r2 = self.deliver(n2, r)
                self.rec.note("echo-exchange-" + ("ok" if r2 == "A" else "failed"))
            else:
                self.rec.note("echo-exchange-not-needed" if r == "A" else "echo-exchange-no-echo")
        elif kind == "D":
            self.ctx._destroy()
        else:
            raise ValueError(op)

    # -- ends ------------------------------------------------------------------
    def abandon(self):
        """The process is dead: the kernel closes its descriptors (releasing the flock on the
        lock file, which stays in the directory); the object must never write again."""
        ctx, self.ctx = self.ctx, None
        ok = True
        if ctx is not None:
            lf = getattr(ctx, "lockfile", _MISSING)
            if lf is _MISSING:
                ok = False
            elif lf is not None:
                try:
                    lf.release(force=True)
                except Exception:  # noqa: BLE001
                    ok = False
                ctx.lockfile = None
        return ok

    def destroy(self):
        self.ctx._destroy()
        self.ctx = None

    def drop(self):
        """Clean stop the way an application gets it: the last reference goes away and
        __del__ runs (the object is in a reference cycle with its ReplayWindow callback)."""
        self.ctx = None
        gc.collect()


_MISSING = object()


def run_ops(life, ops, st, stop_after=None):
    """Run ops[0:stop_after]. Crash propagates."""
    for i, op in enumerate(ops):
        if stop_after is not None and i >= stop_after:
            return i
        life.op(op, st)
    return len(ops)
