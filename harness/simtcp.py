"""In-memory TCP for the real aiocoap `tcpclient` / `tcpserver` transports on the virtual-time loop.

No sockets: `Fabric.install()` replaces `loop.create_connection` / `loop.create_server` *on the loop instance*
by coroutines that join two `asyncio.Protocol`s with a pair of `StreamEnd` transports. What a protocol sees is
what asyncio's selector socket transport shows it (checked against CPython 3.12 `selector_events.py`):

* `create_connection`: the protocol factory is called when the handshake is over, `connection_made` is run through
  `call_soon`, the coroutine returns one loop iteration later; a closed port gives `ConnectionRefusedError`, a host
  that does not answer gives `TimeoutError(ETIMEDOUT)` after `syn_timeout` seconds (Linux: 127 s); a host name listed
  in `fabric.slow_names` is resolved first, which takes the time given there (event "resolved");
* the accepting side: one link delay later the connection is taken from the listening socket's backlog
  (`_accept_connection`, event "accepting"); one loop iteration later the listener's protocol factory is called and the
  transport made (`_accept_connection2`, event "accepted"); `connection_made` runs one further iteration later (event
  "made"): in between the protocol object exists without a transport. Bytes that arrive before are kept (kernel
  receive buffer). If the server was closed meanwhile the connection is reset silently (CPython 3.12.1 itself trips
  over an assertion in `Server._attach` there and reports it to the loop's exception handler; not modelled, it is
  not the library's doing);
* `write()` after `close()` is dropped (and recorded), `close()` flushes what was written, `connection_lost(None)` comes
  through `call_soon`; the other end sees EOF after the link delay (`eof_received()`, then it is closed unless that
  returned true); `abort()` makes the other end lose the connection with `ConnectionResetError`;
* a peer that stops reading (`pause_reading()` on its end) clogs the connection: what arrives for it is kept (its
  kernel receive buffer); the writer's bytes count as unread, and once `fabric.kernel_buffer` bytes (socket buffers of
  both hosts together, default 64 KiB) are unread, further writes stay in the writer's user-space buffer
  (`get_write_buffer_size()`), as they do in `_SelectorSocketTransport.write`; above the high-water mark (64 KiB)
  `protocol.pause_writing()` is called once, `resume_writing()` when the buffer has drained. With a non-empty buffer
  `close()` only sets closing and stops reading: `connection_lost` is not called and no EOF reaches the peer until the
  buffer has drained (event "close-pending"; never, if the peer never reads again), the accepted connection keeps
  its server's `wait_closed()` waiting, and `write()` still appends to the buffer (CPython checks `_conn_lost`, not
  `_closing`; such writes are recorded as writes). `abort()` throws the buffer away and closes at once. Simplifications:
  a write is buffered or sent as a whole, and whether the peer reads is looked at in the instant of the write, not one
  link delay earlier;
* an exception leaving `data_received` goes to the loop's exception handler as "Fatal error: protocol.data_received()
  call failed." and the transport is force-closed (`_fatal_error`), an `OSError` only closes;
* `Server.close()` stops accepting, `wait_closed()` returns once the server is closed *and* all connections it accepted
  are gone (documented semantics, CPython >= 3.12.1).

Byte order on one direction of a connection is preserved whatever the delays. Every event is appended to
`fabric.log` (`Ev` tuples, logical order), so "after this point" can be expressed as a log index and is independent
of ties on the virtual clock.

Step triggers: `fut = fabric.arm(conn, side, kind, n)` is resolved when the n-th event of that kind is recorded for
that connection end; a coroutine awaiting it continues in the next loop iteration, ahead of whatever the event has
scheduled itself (`await asyncio.sleep(0)` k times moves it k iterations further). This places an action between two
steps that happen at the same virtual instant.

Raw (non-aiocoap) peers are ordinary `asyncio.Protocol`s of the harness: `fabric.listen(ip, port, factory, owner)` and
`await fabric.connect(factory, ip, port, owner=..., local=(ip, port))`.
"""

import asyncio
import collections
import errno

Ev = collections.namedtuple("Ev", "t kind conn side owner data")
# kinds: connect refused timeout connect-cancelled established accepting accepted made write late-write deliver dropped
#        close close-pending abort reset force-close eof lost fatal listen unlisten pause-writing resume-writing


class StreamEnd(asyncio.Transport):
    """One end of a simulated connection (the transport object handed to a protocol)."""

    def __init__(self, fabric, conn, side, owner, sockname, peername, server=None):
        super().__init__()
        self.fabric = fabric
        self.loop = fabric.loop
        self.conn = conn
        self.side = side  # "c" (connecting end) / "s" (accepting end)
        self.owner = owner
        self.protocol = None
        self.made = False  # connection_made has been called
        self.peer = None
        self.server = server
        self.closing = False
        self.lost_scheduled = False
        self.lost = False
        self.lost_exc = None
        self.close_calls = 0
        self.abort_calls = 0
        self.t_made = None
        self.t_closing = None
        self.out = bytearray()  # everything written while open
        self.writes = []  # (log index, t, bytes)
        self.late = []  # (log index, t, bytes): written after close(), never sent
        self.inbox = collections.deque()  # what is under way to this end: ("data", b) / ("eof",) / ("rst",)
        self.prebuffer = []  # arrived before the protocol was attached
        self.received = bytearray()
        self.reading = True
        self.held = collections.deque()  # arrived while this end was not reading (kernel receive buffer)
        self.unread = 0  # bytes sent from here that the other end has not consumed yet
        self.wbuf = []  # user-space write buffer: chunks that the kernel would not take
        self.wbuf_size = 0
        self.close_pending = False  # close() called while the write buffer was not empty
        self.writing_paused = False
        self._extra = {"sockname": sockname, "peername": peername, "ssl_object": None, "socket": None}

    def __repr__(self):
        return "<StreamEnd #%d%s %s %r->%r%s>" % (self.conn, self.side, self.owner, self._extra["sockname"], self._extra["peername"], " closing" if self.closing else "")

    def _log(self, kind, data=None):
        return self.fabric.record(kind, self.conn, self.side, self.owner, data)

    # ---- asyncio.Transport API ----
    def get_extra_info(self, name, default=None):
        return self._extra.get(name, default)

    def is_closing(self):
        return self.closing

    def set_protocol(self, protocol):
        self.protocol = protocol

    def get_protocol(self):
        return self.protocol

    def is_reading(self):
        return self.reading and not self.closing

    def pause_reading(self):
        self.reading = False

    def resume_reading(self):
        if self.reading or self.closing:
            return
        self.reading = True
        held, self.held = self.held, collections.deque()
        for item in held:
            self.loop.call_soon(self._deliver, item)
        if self.peer is not None:
            self.loop.call_soon(self.peer._flush)

    def get_write_buffer_size(self):
        return self.wbuf_size

    def get_write_buffer_limits(self):
        return (self.LOW_WATER, self.HIGH_WATER)

    LOW_WATER, HIGH_WATER = 16384, 65536

    def set_write_buffer_limits(self, high=None, low=None):
        pass

    def can_write_eof(self):
        return True

    def write_eof(self):
        raise NotImplementedError("half-close is not modelled")

    def write(self, data):
        if not isinstance(data, (bytes, bytearray, memoryview)):
            raise TypeError("data argument must be a bytes-like object, not %r" % type(data).__name__)
        data = bytes(data)
        if not data:
            return
        if self.closing and not self.close_pending:
            self.late.append((self._log("late-write", data), self.loop.time(), data))
            return
        self.out += data
        self.writes.append((self._log("write", data), self.loop.time(), data))
        p = self.peer
        if self.wbuf or (p is not None and not p.reading and self.unread >= self.fabric.kernel_buffer):
            # the kernel takes no more: the bytes stay with the transport
            self.wbuf.append(data)
            self.wbuf_size += len(data)
            if self.wbuf_size > self.HIGH_WATER and not self.writing_paused:
                self.writing_paused = True
                self._log("pause-writing", self.wbuf_size)
                try:
                    self.protocol.pause_writing()
                except (SystemExit, KeyboardInterrupt):
                    raise
                except BaseException as exc:
                    self.loop.call_exception_handler({"message": "protocol.pause_writing() failed", "exception": exc, "transport": self, "protocol": self.protocol})
            return
        self.unread += len(data)
        self._to_peer(("data", data))

    def writelines(self, lines):
        self.write(b"".join(bytes(x) for x in lines))

    def close(self):
        self.close_calls += 1
        if self.closing:
            return
        self.closing = True
        self.t_closing = self.loop.time()
        if self.wbuf:
            # _SelectorTransport.close(): the reader is removed; connection_lost waits for the buffer to drain
            self.close_pending = True
            self._log("close-pending", self.wbuf_size)
            return
        self._log("close")
        self._schedule_lost(None)
        self._to_peer(("eof",))

    def abort(self):
        self.abort_calls += 1
        self._force_close(None, kind="abort")

    # ---- internals ----
    def _to_peer(self, item):
        p = self.peer
        if p is None:
            return
        p.inbox.append(item)
        self.loop.call_later(self.fabric.delay_of(self), p._deliver_next)

    def _flush(self):
        """the other end reads again: the kernel takes what was buffered"""
        if self.lost_scheduled or not self.wbuf:
            return
        chunks, self.wbuf, self.wbuf_size = self.wbuf, [], 0
        for data in chunks:
            self.unread += len(data)
            self._to_peer(("data", data))
        if self.writing_paused:
            self.writing_paused = False
            self._log("resume-writing")
            try:
                self.protocol.resume_writing()
            except (SystemExit, KeyboardInterrupt):
                raise
            except BaseException as exc:
                self.loop.call_exception_handler({"message": "protocol.resume_writing() failed", "exception": exc, "transport": self, "protocol": self.protocol})
        if self.close_pending:
            self.close_pending = False
            self._log("close")
            self._schedule_lost(None)
            self._to_peer(("eof",))

    def _force_close(self, exc, kind="abort"):
        if self.lost_scheduled:
            return
        self.wbuf, self.wbuf_size, self.close_pending = [], 0, False
        if not self.closing:
            self.closing = True
            self.t_closing = self.loop.time()
        self._log(kind, repr(exc) if exc is not None else None)
        self._schedule_lost(exc)
        self._to_peer(("rst",))

    def _schedule_lost(self, exc):
        if self.lost_scheduled:
            return
        self.lost_scheduled = True
        self.loop.call_soon(self._call_connection_lost, exc)

    def _call_connection_lost(self, exc):
        self.lost = True
        self.lost_exc = exc
        self._log("lost", repr(exc) if exc is not None else None)
        try:
            if self.protocol is not None:
                self.protocol.connection_lost(exc)
        finally:
            srv, self.server = self.server, None
            if srv is not None:
                srv._detach()

    def _fatal_error(self, exc, message):
        if isinstance(exc, OSError):
            pass  # asyncio logs these at debug level only
        else:
            self._log("fatal", repr(exc))
            self.fabric.fatal.append({"t": self.loop.time(), "owner": self.owner, "conn": self.conn, "side": self.side, "exc_type": type(exc).__name__, "exc": repr(exc)[:300], "message": message})
            self.loop.call_exception_handler({"message": message, "exception": exc, "transport": self, "protocol": self.protocol})
        self._force_close(exc, kind="force-close")

    def _deliver_next(self):
        if not self.inbox:
            return
        item = self.inbox.popleft()
        if not self.made and not self.closing:
            self.prebuffer.append(item)
            return
        self._deliver(item)

    def _attach(self, protocol):
        """accepting end: protocol created (transport constructor); connection_made comes one loop iteration later, then
        whatever has arrived meanwhile"""
        self.protocol = protocol
        self.t_made = self.loop.time()
        self._log("accepted")
        self.loop.call_soon(self._made)

    def _made(self):
        self.made = True
        self._log("made")
        try:
            self.protocol.connection_made(self)
        finally:
            pre, self.prebuffer = self.prebuffer, []
            for item in pre:
                self.loop.call_soon(self._deliver, item)

    def _deliver(self, item):
        if not self.reading and not self.closing:
            self.held.append(item)
            return
        if item[0] == "data" and self.peer is not None:
            self.peer.unread -= len(item[1])
        if self.closing:
            # a closed socket is not read any more (the kernel answers with RST; nobody looks)
            if item[0] == "data":
                self._log("dropped", item[1])
            return
        if item[0] == "data":
            self.received += item[1]
            self._log("deliver", item[1])
            try:
                self.protocol.data_received(item[1])
            except (SystemExit, KeyboardInterrupt):
                raise
            except BaseException as exc:
                self._fatal_error(exc, "Fatal error: protocol.data_received() call failed.")
        elif item[0] == "eof":
            self._log("eof")
            try:
                keep_open = self.protocol.eof_received()
            except (SystemExit, KeyboardInterrupt):
                raise
            except BaseException as exc:
                self._fatal_error(exc, "Fatal error: protocol.eof_received() call failed.")
                return
            if not keep_open:
                self.close()
        else:
            self._force_close(ConnectionResetError(errno.ECONNRESET, "Connection reset by peer"), kind="reset")


class SimServer(asyncio.AbstractServer):
    """What loop.create_server returns."""

    def __init__(self, fabric, key, factory, owner):
        self.fabric = fabric
        self.key = key
        self.factory = factory
        self.owner = owner
        self.closed = False
        self.active = 0
        self.accepted = []  # StreamEnds
        self._waiters = []

    def get_loop(self):
        return self.fabric.loop

    def is_serving(self):
        return not self.closed

    @property
    def sockets(self):
        return ()

    def _attach(self):
        self.active += 1

    def _detach(self):
        self.active -= 1
        if self.active == 0 and self.closed:
            self._wakeup()

    def _wakeup(self):
        waiters, self._waiters = self._waiters, None
        for w in waiters or ():
            if not w.done():
                w.set_result(None)

    def close(self):
        if self.closed:
            return
        self.closed = True
        if self.fabric.listeners.get(self.key) is self:
            del self.fabric.listeners[self.key]
        self.fabric.record("unlisten", None, "s", self.owner, self.key)
        if self.active == 0:
            self._wakeup()

    async def wait_closed(self):
        if self._waiters is None:
            return
        w = self.fabric.loop.create_future()
        self._waiters.append(w)
        await w

    async def start_serving(self):
        pass

    async def serve_forever(self):
        raise NotImplementedError


class Fabric:
    def __init__(self, loop, delay=0.001, connect_rtt=None, syn_timeout=127.0, kernel_buffer=65536):
        self.loop = loop
        self.delay = delay  # one-way link delay; float or f(host_a, host_b) -> float
        self.connect_rtt = connect_rtt  # duration of the handshake as the connecting side sees it (default: 2 * delay)
        self.syn_timeout = syn_timeout
        self.kernel_buffer = kernel_buffer  # bytes a connection takes towards an end that does not read
        self.log = []
        self.fatal = []  # exceptions that left data_received / eof_received
        self.listeners = {}  # (host, port) -> SimServer
        self.blackholes = set()  # hosts that never answer a SYN
        self.slow_names = {}  # host name -> (seconds its resolution inside create_connection takes, address)
        self.ends = []  # every StreamEnd ever made
        self.connects = []  # dicts: conn, owner, dst, t_start, log index, state pending|established|refused|timeout|cancelled, t_end
        self.dest_owner = lambda host, port: None  # who is it that connects to (host, port) through loop.create_connection
        self.local_ip = {}  # owner -> ip used as source address
        self._conn = 0
        self._eph = 40000
        self._seen = {}  # (conn, side, kind) -> index of the last such event
        self._armed = {}  # (conn, side, kind, n) -> future

    # ---- the event log, and step triggers on it ----
    def record(self, kind, conn, side, owner, data=None):
        """append an event; returns its index. An armed trigger on (conn, side, kind, n) fires when the n-th event of
        that kind at that connection end is recorded: its future is resolved then and there, i.e. whoever awaits it runs in
        the next loop iteration, queued *before* whatever the fabric schedules as a consequence of the event."""
        self.log.append(Ev(self.loop.time(), kind, conn, side, owner, data))
        key = (conn, side, kind)
        n = self._seen[key] = self._seen.get(key, -1) + 1
        fut = self._armed.pop(key + (n,), None)
        if fut is not None and not fut.done():
            fut.set_result(len(self.log) - 1)
        return len(self.log) - 1

    def arm(self, conn, side, kind, n=0):
        fut = self.loop.create_future()
        self._armed[(conn, side, kind, n)] = fut
        return fut

    # ---- configuration ----
    def install(self):
        self.loop.create_connection = self.create_connection
        self.loop.create_server = self.create_server

    def delay_of(self, end):
        d = self.delay
        if callable(d):
            return d(end._extra["sockname"][0], end._extra["peername"][0])
        return d

    def _rtt(self, a, b):
        if self.connect_rtt is not None:
            return self.connect_rtt(a, b) if callable(self.connect_rtt) else self.connect_rtt
        d = self.delay(a, b) if callable(self.delay) else self.delay
        return 2 * d

    def blackhole(self, host):
        self.blackholes.add(host)

    def listen(self, host, port, factory, owner):
        key = (host, port)
        if key in self.listeners:
            raise OSError(errno.EADDRINUSE, "address in use in the simulated network: %r" % (key,))
        srv = SimServer(self, key, factory, owner)
        self.listeners[key] = srv
        self.record("listen", None, "s", owner, key)
        return srv

    # ---- loop API stand-ins ----
    async def create_server(self, protocol_factory, host=None, port=None, *, ssl=None, owner=None, **kw):
        if ssl is not None:
            raise NotImplementedError("TLS is not modelled")
        if isinstance(host, (list, tuple)):
            host = host[0]
        return self.listen(host, port, protocol_factory, owner if owner is not None else self.next_server_owner)

    next_server_owner = None  # set by the scenario around the creation of a context

    async def create_connection(self, protocol_factory, host=None, port=None, *, ssl=None, **kw):
        if ssl is not None:
            raise NotImplementedError("TLS is not modelled")
        owner = self.dest_owner(host, port)
        return await self.connect(protocol_factory, host, port, owner=owner)

    async def connect(self, protocol_factory, host, port, *, owner=None, local=None):
        loop = self.loop
        self._conn += 1
        cid = self._conn
        if local is None:
            self._eph += 1
            local = (self.local_ip.get(owner, "10.255.0.1"), self._eph)
        rec = {"conn": cid, "owner": owner, "dst": (host, port), "t_start": loop.time(), "state": "pending", "t_end": None, "end": None}
        rec["log"] = self.record("connect", cid, "c", owner, (host, port))
        self.connects.append(rec)
        target = host
        try:
            slow = self.slow_names.get(host)
            if slow is not None:
                # loop.create_connection resolves the name first (getaddrinfo in an executor thread)
                await asyncio.sleep(slow[0])
                target = slow[1]
                self.record("resolved", cid, "c", owner, (host, target))
            if target in self.blackholes:
                await asyncio.sleep(self.syn_timeout)
                rec.update(state="timeout", t_end=loop.time())
                self.record("timeout", cid, "c", owner, (host, port))
                raise TimeoutError(errno.ETIMEDOUT, "Connect call failed %r" % ((host, port),))
            await asyncio.sleep(self._rtt(local[0], target))
            srv = self.listeners.get((target, port))
            if srv is None:
                rec.update(state="refused", t_end=loop.time())
                self.record("refused", cid, "c", owner, (host, port))
                raise ConnectionRefusedError(errno.ECONNREFUSED, "Connect call failed %r" % ((host, port),))
        except asyncio.CancelledError:
            rec.update(state="cancelled", t_end=loop.time())
            self.record("connect-cancelled", cid, "c", owner, (host, port))
            raise
        cend = StreamEnd(self, cid, "c", owner, local, (target, port))
        send = StreamEnd(self, cid, "s", srv.owner, (target, port), local, server=srv)
        cend.peer, send.peer = send, cend
        self.ends += [cend, send]
        srv.accepted.append(send)
        rec.update(state="established", t_end=loop.time(), end=cend)
        cend._log("established", (host, port))

        def accept_ready():
            # selector_events._accept_connection: the listening socket is readable, the connection is taken from the
            # backlog and a task is made for _accept_connection2, which runs in the next loop iteration: protocol
            # factory, transport (whose constructor schedules connection_made for the iteration after that)
            send._log("accepting")
            loop.call_soon(accept)

        def accept():
            if srv.closed:
                # the server was closed before the transport was made: the connection is reset
                send.closing = True
                send.lost_scheduled = True
                send.lost = True
                send.server = None
                send._to_peer(("rst",))
                return
            srv._attach()
            send._attach(srv.factory())

        loop.call_later(self.delay_of(send), accept_ready)
        protocol = protocol_factory()
        cend.protocol = protocol
        cend.t_made = loop.time()
        loop.call_soon(cend._made)
        waiter = loop.create_future()
        loop.call_soon(lambda: waiter.done() or waiter.set_result(None))
        try:
            await waiter
        except BaseException:
            cend.close()
            raise
        return cend, protocol

    # ---- evaluation helpers ----
    def ends_of(self, owner):
        return [e for e in self.ends if e.owner == owner]

    def open_ends(self, owner):
        return [e for e in self.ends if e.owner == owner and not e.closing]


class RawStream(asyncio.Protocol):
    """Scripted RFC 8323 endpoint of the harness (frames by harness/reftcp.py, nothing from aiocoap).

    on_frame(peer, frame) is called for every complete frame; peer.send(frame) writes one (dropped once the
    connection is closing). `hang_up_on_eof=False` keeps the socket open when the other side has closed."""

    def __init__(self, loop, on_frame=None, on_made=None, send_csm=True, hang_up_on_eof=True, name=None):
        from . import reftcp

        self.rt = reftcp
        self.loop = loop
        self.on_frame = on_frame
        self.on_made = on_made
        self.send_csm = send_csm
        self.hang_up_on_eof = hang_up_on_eof
        self.name = name
        self.transport = None
        self.buf = b""
        self.frames = []  # (t, Frame) received
        self.sent = []  # (t, Frame)
        self.eof = None
        self.lost = None
        self.garbled = None

    def connection_made(self, transport):
        self.transport = transport
        if self.send_csm:
            self.send(self.rt.Frame(self.rt.CSM, b"", ((2, (1152).to_bytes(2, "big")),), b""))
        if self.on_made is not None:
            self.on_made(self)

    def data_received(self, data):
        try:
            raw, self.buf = self.rt.split(self.buf + data)
            frames = [self.rt.parse_frame(f) for f in raw]
        except self.rt.Malformed as e:
            self.garbled = (self.loop.time(), e.kind)
            return
        for f in frames:
            self.frames.append((self.loop.time(), f))
            if self.on_frame is not None:
                self.on_frame(self, f)

    def eof_received(self):
        self.eof = self.loop.time()
        return not self.hang_up_on_eof

    def connection_lost(self, exc):
        self.lost = (self.loop.time(), exc)

    @property
    def open(self):
        return self.transport is not None and not self.transport.is_closing()

    def send(self, frame):
        if not self.open:
            return False
        self.sent.append((self.loop.time(), frame))
        self.transport.write(self.rt.encode(frame))
        return True

    def hang_up(self):
        if self.transport is not None:
            self.transport.close()
