"""C12 helpers (OSCORE replay protection).

* `RamContext` — in-memory security context in the style of the repository's own
  `tests/test_oscore.py::NonsavingSecurityContext`, with a configurable replay window size and
  with or without Echo recovery; `make_fs_dir` / `load_fs` — the real
  `FilesystemSecurityContext` on a scratch directory (`"window": N` in settings.json is how the
  window size is configured there).
* `Peer` — the genuine client: protects real requests with chosen sender sequence numbers.
* forging of valid-looking OSCORE messages without the key.
* `Model` — the reference replay model (accepted set, maximum, window size).
* `install_window_invariant` — class invariant on `oscore.ReplayWindow` applied through icontract
  (own wrapper as a fallback): since first initialisation `_index` never decreases and
  `0 <= _bitfield < 2**_size`.

Nothing here is code under test; the only aiocoap internals read are `ReplayWindow._index /
_bitfield / _size`, defensively (missing attribute => counted as unreachable, never an alarm)."""

import json
import os

import aiocoap
from aiocoap import oscore
from aiocoap.message import Message, Direction

SECRET = bytes.fromhex("0102030405060708090a0b0c0d0e0f10")
SALT = bytes.fromhex("9e7ca92223786340")
CLIENT_ID = b"\xc1"
SERVER_ID = b"\x5e"
ALG = "AES-CCM-16-64-128"
TAG_BYTES = 8


# ------------------------------------------------------------------------- contexts
class RamContext(oscore.CanProtect, oscore.CanUnprotect, oscore.SecurityContextUtils):
    """Same construction as tests/test_oscore.py's NonsavingSecurityContext."""

    def __init__(self, sender_id, recipient_id, window, echo=None, initialised=True):
        self.alg_aead = oscore.algorithms[ALG]
        self.hashfun = oscore.hashfunctions["sha256"]
        self.sender_id = sender_id
        self.recipient_id = recipient_id
        self.id_context = None
        self.derive_keys(SALT, SECRET)
        self.sender_sequence_number = 0
        self.echo_recovery = echo
        self.window_size = window
        reset_window(self, window, initialised)

    def post_seqnoincrease(self):
        pass

    def _window_callback(self):
        pass


def reset_window(ctx, size, initialised):
    """A fresh ReplayWindow, created the way FilesystemSecurityContext._load / edhoc do it."""
    cb = getattr(ctx, "_replay_window_changed", None) or ctx._window_callback
    w = oscore.ReplayWindow(size, cb)
    if initialised:
        w.initialize_empty()
    ctx.recipient_replay_window = w
    return w


def make_fs_dir(path, sender_id, recipient_id, window=None, sequence=None):
    os.makedirs(path, exist_ok=True)
    settings = {
        "algorithm": ALG,
        "sender-id_hex": sender_id.hex(),
        "recipient-id_hex": recipient_id.hex(),
        "secret_hex": SECRET.hex(),
        "salt_hex": SALT.hex(),
    }
    if window is not None:
        settings["window"] = window
    with open(os.path.join(path, "settings.json"), "w") as f:
        json.dump(settings, f)
    if sequence is not None:
        with open(os.path.join(path, "sequence.json"), "w") as f:
            json.dump(sequence, f)
    return path


def load_fs(path):
    return oscore.FilesystemSecurityContext(path)


def close_fs(ctx):
    """Orderly end of a file-backed context so that its __del__ never writes into a removed
    scratch directory."""
    try:
        if getattr(ctx, "lockfile", None) is not None:
            ctx._destroy()
    except Exception:
        try:
            lf = getattr(ctx, "lockfile", None)
            if lf is not None:
                lf.release(force=True)
            ctx.lockfile = None
        except Exception:
            pass


# ------------------------------------------------------------------------- messages
def incoming(wire):
    code, option, payload = wire
    m = Message(code=code, oscore=option, payload=payload)
    m.direction = Direction.INCOMING
    return m


def wire_of(outer):
    return (int(outer.code), bytes(outer.opt.oscore), bytes(outer.payload))


def piv_bytes(n):
    return n.to_bytes(5, "big").lstrip(b"\0") or b"\0"


def request_option(n, kid=CLIENT_ID):
    """Compressed OSCORE option of a request: flag byte (k set, n = len(piv)), piv, kid
    (RFC 8613 section 6.1)."""
    piv = piv_bytes(n)
    return bytes([0x08 | len(piv)]) + piv + kid


class Peer:
    """The genuine sender."""

    def __init__(self):
        self.ctx = RamContext(CLIENT_ID, SERVER_ID, 32, None)
        self.cache = {}

    def request(self, n, echo=None):
        key = (n, echo)
        got = self.cache.get(key)
        if got is None:
            self.ctx.sender_sequence_number = n
            m = Message(code=aiocoap.GET, uri_path=("r",))
            if echo is not None:
                m.opt.echo = echo
            outer, rid = self.ctx.protect(m)
            got = (wire_of(outer), rid)
            if len(self.cache) > 20000:
                self.cache.clear()
            self.cache[key] = got
        return got

    def read_response(self, outer, rid):
        plain, _ = self.ctx.unprotect(incoming(wire_of(outer)), rid)
        return plain


def learn_echo(server, peer, probe):
    """Run the real B.1.2 exchange: an Echo-less request is answered with a protected 4.01
    carrying Echo; the client unprotects it. Returns (echo value | None, error type name)."""
    wire, rid = peer.request(probe)
    try:
        server.unprotect(incoming(wire))
    except oscore.ReplayErrorWithEcho as e:
        resp = e.to_message()
        plain = peer.read_response(resp, rid)
        return plain.opt.echo, type(e).__name__
    except Exception as e:  # noqa: BLE001 - reported by the caller
        return None, type(e).__name__
    return None, "accepted"


def det_bytes(seed, n):
    """Deterministic pseudo-random bytes (forged ciphertexts must be replayable)."""
    import hashlib

    out = b""
    i = 0
    while len(out) < n:
        out += hashlib.blake2b(b"%d/%d" % (seed, i), digest_size=32).digest()
        i += 1
    return out[:n]


def forge(peer, kind, n, aux):
    """A message that looks like request number n from the genuine client but was made without
    the key. Returns wire tuple or None if the kind does not apply."""
    base_wire, _ = peer.request(n)
    code, option, payload = base_wire
    if kind == "rand":
        return (code, request_option(n), det_bytes(aux, len(payload)))
    if kind == "flip":
        i = aux % (len(payload) * 8)
        b = bytearray(payload)
        b[i // 8] ^= 1 << (i % 8)
        return (code, request_option(n), bytes(b))
    if kind == "tagflip":
        i = aux % (TAG_BYTES * 8)
        b = bytearray(payload)
        b[len(b) - 1 - i // 8] ^= 1 << (i % 8)
        return (code, request_option(n), bytes(b))
    if kind == "transplant":
        # an authentic ciphertext of another number under this number's partial IV
        other = aux if aux != n else n + 1
        (c2, _o2, p2), _ = peer.request(other)
        return (c2, request_option(n), p2)
    if kind == "short":
        return (code, request_option(n), det_bytes(aux, TAG_BYTES))
    if kind == "wrongkid":
        return (code, request_option(n, kid=b"\x77"), payload)
    if kind == "longpiv":
        # same number, non-minimal partial IV: authentic ciphertext but different AAD
        piv = b"\0" + piv_bytes(n)
        if len(piv) > 5:
            return None
        return (code, bytes([0x08 | len(piv)]) + piv + CLIENT_ID, payload)
    raise ValueError(kind)


FORGE_KINDS = ("rand", "flip", "tagflip", "transplant", "short", "wrongkid", "longpiv")


# ------------------------------------------------------------------------- reference model
class Model:
    """What the statement fixes about the verdict of an arriving authentic request.

    expect() returns (verdict, clause): verdict in {"accept", "reject", "free"}.
    Window convention (RFC 8613 7.4 leaves it to the implementation; aiocoap documents it in the
    ReplayWindow doctest): a window of size W whose highest accepted number is M tracks
    M-W+1 .. M; n <= M-W has fallen out. Exactly n == M-W is reported as "edge" and not judged."""

    def __init__(self, size, initialised):
        self.W = size
        self.init = initialised
        self.accepted = set()
        self.M = None

    def clone(self):
        m = Model(self.W, self.init)
        m.accepted = set(self.accepted)
        m.M = self.M
        return m

    def expect(self, n, echo_ok):
        if not self.init:
            return ("accept", "uninit-echo") if echo_ok else ("reject", "uninit")
        if n in self.accepted:
            return ("reject", "twice")
        if self.M is None or n > self.M:
            return ("accept", "above")
        if n < self.M - self.W:
            return ("reject", "below")
        if n == self.M - self.W:
            return ("free", "edge")
        return ("free", "inwindow")

    def accepted_now(self, n):
        self.init = True
        self.accepted.add(n)
        if self.M is None or n > self.M:
            self.M = n


# ------------------------------------------------------------------------- invariant
class WindowInvariantBroken(Exception):
    def __init__(self, which, detail):
        super().__init__("%s: %s" % (which, detail))
        self.which = which
        self.detail = detail


INV = {"evaluations": 0, "unreachable": 0, "mechanism": None}
_MISSING = object()


def _window_fields(w):
    idx = getattr(w, "_index", _MISSING)
    bf = getattr(w, "_bitfield", _MISSING)
    size = getattr(w, "_size", _MISSING)
    if idx is _MISSING or bf is _MISSING or size is _MISSING:
        return None
    return idx, bf, size


def _broken(self):
    """None if the invariant holds, else (which, detail). Evaluated after every public method."""
    f = _window_fields(self)
    if f is None:
        INV["unreachable"] += 1
        return None
    INV["evaluations"] += 1
    idx, bf, size = f
    if idx is None:  # not initialised (yet)
        return None
    try:
        if not 0 <= bf < (1 << size):
            return ("bitfield-out-of-range", "index=%r bitfield=%r size=%r" % f)
        d = self.__dict__
        last = d.get("_verif_last_index")
        if last is not None and idx < last:
            return ("index-decreased", "index=%r after %r (bitfield=%r size=%r)" % (idx, last, bf, size))
        d["_verif_last_index"] = idx
    except TypeError:  # fields of another type than assumed: monitor unreachable, not an alarm
        INV["evaluations"] -= 1
        INV["unreachable"] += 1
    return None


def window_invariant_holds(self):
    """Since first initialisation `_index` never decreases and 0 <= `_bitfield` < 2**`_size`."""
    b = _broken(self)
    if b is not None:
        self.__dict__["_verif_broken"] = b
        return False
    return True


def window_invariant_error(self):
    which, detail = self.__dict__.get("_verif_broken") or ("unknown", "")
    return WindowInvariantBroken(which, detail)


def install_window_invariant():
    """Apply the two conditions as class invariants of oscore.ReplayWindow (in place, so that
    instances created inside oscore.py are covered)."""
    if INV["mechanism"]:
        return INV["mechanism"]
    cls = oscore.ReplayWindow
    try:
        import icontract

        icontract.invariant(window_invariant_holds, error=window_invariant_error)(cls)
        INV["mechanism"] = "icontract"
    except ImportError:
        import functools

        def wrap(fn):
            @functools.wraps(fn)
            def inner(self, *a, **kw):
                r = fn(self, *a, **kw)
                if not window_invariant_holds(self):
                    raise window_invariant_error(self)
                return r

            return inner

        for name, fn in list(vars(cls).items()):
            if callable(fn) and (not name.startswith("_") or name == "__init__"):
                setattr(cls, name, wrap(fn))
        INV["mechanism"] = "own-wrapper"
    return INV["mechanism"]
