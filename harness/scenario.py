"""Run one scenario coroutine on a fresh virtual-time loop with all secondary monitors armed.

    res = scenario.run(lambda loop: main(loop), seed)

res.ok            scenario coroutine returned (res.value)
res.hang          loop had nothing left to do before the coroutine finished (definite hang)
res.horizon       virtual-time watchdog fired (inconclusive)
res.error         exception raised by the scenario coroutine itself (harness or API escape)
res.loop_exceptions   contexts that reached the loop exception handler
res.log_errors    logging records at ERROR or above emitted by aiocoap loggers
res.unraisable    sys.unraisablehook reports (exceptions in __del__ etc.)
res.warnings      RuntimeWarnings (never-awaited coroutines ...)
"""

import asyncio
import gc
import logging
import random
import sys
import warnings

from . import vloop


class _Collector(logging.Handler):
    def __init__(self):
        super().__init__(level=logging.DEBUG)
        self.records = []
        self.errors = []

    def emit(self, record):
        if record.levelno >= logging.ERROR:
            try:
                msg = record.getMessage()
            except Exception as e:  # a broken logging call is itself worth seeing
                msg = "<unformattable log record %r %r: %r>" % (record.msg, record.args, e)
            self.errors.append({"logger": record.name, "level": record.levelname, "msg": msg[:500], "exc": repr(record.exc_info[1])[:300] if record.exc_info else None})


_collector = None


def install_logging():
    global _collector
    if _collector is None:
        _collector = _Collector()
        root = logging.getLogger()
        root.addHandler(_collector)
        root.setLevel(logging.DEBUG)
        logging.raiseExceptions = True
    return _collector


class Result:
    def __init__(self):
        self.ok = False
        self.value = None
        self.hang = False
        self.horizon = False
        self.error = None
        self.loop_exceptions = []
        self.log_errors = []
        self.unraisable = []
        self.warnings = []
        self.vtime = 0.0
        self.logging_failures = []


def run(factory, seed, horizon=1e6, debug=False):
    """factory(loop) -> coroutine"""
    res = Result()
    col = install_logging()
    del col.errors[:]
    random.seed(seed)
    loop = vloop.new_loop(horizon=horizon)
    if debug:
        loop.set_debug(True)
    old_unraisable = sys.unraisablehook

    def on_unraisable(u):
        res.unraisable.append({"exc": repr(u.exc_value)[:300], "obj": repr(u.object)[:200], "msg": u.err_msg})

    sys.unraisablehook = on_unraisable
    # logging swallows exceptions raised inside a logging call (handleError prints to stderr);
    # capture those too: a log call with bad arguments is a latent crash.
    old_handle_error = logging.Handler.handleError

    def handle_error(self, record):
        et, ev, tb = sys.exc_info()
        res.logging_failures.append({"msg": repr(record.msg)[:200], "exc": repr(ev)[:200]})

    logging.Handler.handleError = handle_error
    try:
        with warnings.catch_warnings(record=True) as wlist:
            warnings.simplefilter("always", RuntimeWarning)
            warnings.simplefilter("ignore", DeprecationWarning)
            try:
                res.value = loop.run_until_complete(factory(loop))
                res.ok = True
            except vloop.Hang:
                res.hang = True
            except vloop.HorizonExceeded:
                res.horizon = True
            except Exception as e:
                res.error = e
            res.vtime = loop.time()
            res.loop_exceptions = list(loop.exceptions)
            res.log_errors = list(col.errors)
            vloop.close_loop(loop)
            gc.collect()
            res.warnings = [str(w.message)[:300] for w in wlist if issubclass(w.category, RuntimeWarning)]
    finally:
        sys.unraisablehook = old_unraisable
        logging.Handler.handleError = old_handle_error
    return res
