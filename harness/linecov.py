"""Line reach of the code under test while a check runs (diagnostic, off by default).

With VERIF_COV=<dir> every worker records which lines of <repo>/aiocoap/** it executed and dumps them to
<dir>/<ID>-<shard>.json. tools/covreport.py merges the dumps and lists, per anchored file of a property, the
executable lines that no workload of the check reached: those are the dimensions the generators hold constant.

Python 3.12: sys.monitoring LINE events, each location disabled after its first hit (a few per cent overhead).
Python 3.11 (the OSCORE interpreter): sys.settrace."""

import json
import os
import sys

_hits = {}
_prefix = None


def start(repo):
    global _prefix
    _prefix = os.path.join(os.path.realpath(repo), "aiocoap") + os.sep
    mon = getattr(sys, "monitoring", None)
    if mon is not None:
        tool = mon.COVERAGE_ID
        mon.use_tool_id(tool, "verif-linecov")

        def on_line(code, line):
            fn = code.co_filename
            if fn.startswith(_prefix):
                _hits.setdefault(fn, set()).add(line)
            return mon.DISABLE

        mon.register_callback(tool, mon.events.LINE, on_line)
        mon.set_events(tool, mon.events.LINE)
    else:

        def local(frame, event, arg):
            if event == "line":
                _hits[frame.f_code.co_filename].add(frame.f_lineno)
            return local

        def tracer(frame, event, arg):
            fn = frame.f_code.co_filename
            if not fn.startswith(_prefix):
                return None
            _hits.setdefault(fn, set()).add(frame.f_lineno)
            return local

        sys.settrace(tracer)


def snapshot():
    return {os.path.relpath(fn, os.path.dirname(_prefix.rstrip(os.sep))): sorted(lines) for fn, lines in _hits.items()}


def dump(path):
    with open(path, "w") as f:
        json.dump(snapshot(), f)


def executable_lines(path):
    """line -> qualified function name for the lines of code objects nested in functions (module and class level
    code runs at import and says nothing about the workload)"""
    out = {}

    def walk(code, qual, depth):
        for c in code.co_consts:
            if hasattr(c, "co_code"):
                walk(c, (qual + "." if qual else "") + c.co_name, depth + 1)
        if depth == 0:
            return
        for _, _, line in code.co_lines():
            if line is not None and line != code.co_firstlineno:
                out.setdefault(line, qual)

    with open(path) as f:
        walk(compile(f.read(), path, "exec"), "", 0)
    return out
