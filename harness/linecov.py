"""Line reach of the code under test while a check runs (diagnostic, off by default).

With VERIF_COV=<dir> every worker records which lines of <repo>/aiocoap/** it executed and dumps them to
<dir>/<ID>-<shard>.json. tools/covreport.py merges the dumps and lists, per anchored file of a property, the
executable lines that no workload of the check reached: those are the dimensions the generators hold constant.

Python 3.12: sys.monitoring LINE events, each location disabled after its first hit (a few per cent overhead).
Python 3.11 (the OSCORE interpreter): sys.settrace."""

import json
import os
import sys

_hits = {}
_prefix = None


def start(repo):
    global _prefix
    _prefix = os.path.join(os.path.realpath(repo), "aiocoap") + os.sep
    mon = getattr(sys, "monitoring", None)
    if mon is not None:
        tool = mon.COVERAGE_ID
        mon.use_tool_id(tool, "verif-linecov")

        def on_line(code, line):
            fn = code.co_filename
            if fn.startswith(_prefix):
                _hits.setdefault(fn, set()).add(line)
            return mon.DISABLE

        mon.register_callback(tool, mon.events.LINE, on_line)
        mon.set_events(tool, mon.events.LINE)
    else:

        def local(frame, event, arg):
            if event == "line":
                _hits[frame.f_code.co_filename].add(frame.f_lineno)
            return local

        def tracer(frame, event, arg):
            fn = frame.f_code.co_filename
            if not fn.startswith(_prefix):
                return None
            _hits.setdefault(fn, set()).add(frame.f_lineno)
            return local

        sys.settrace(tracer)


def dump(path):
    out = {os.path.relpath(fn, os.path.dirname(_prefix.rstrip(os.sep))): sorted(lines) for fn, lines in _hits.items()}
    with open(path, "w") as f:
        json.dump(out, f)
