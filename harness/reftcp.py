"""Independent RFC 8323 section 3.2 stream framing (imports nothing from aiocoap).

    0                   1                   2                   3
    0 1 2 3 4 5 6 7 8 9 0 1 2 3 4 5 6 7 8 9 0 1 2 3 4 5 6 7 8 9 0 1
   +-+-+-+-+-+-+-+-+-+-+-+-+-+-+-+-+-+-+-+-+-+-+-+-+-+-+-+-+-+-+-+-+
   |  Len  |  TKL  | Extended Length (if any, as chosen by Len) ...
   +-+-+-+-+-+-+-+-+-+-+-+-+-+-+-+-+-+-+-+-+-+-+-+-+-+-+-+-+-+-+-+-+
   |      Code     | Token (if any, TKL bytes) ...
   +-+-+-+-+-+-+-+-+-+-+-+-+-+-+-+-+-+-+-+-+-+-+-+-+-+-+-+-+-+-+-+-+
   |  Options (if any) ...
   +-+-+-+-+-+-+-+-+-+-+-+-+-+-+-+-+-+-+-+-+-+-+-+-+-+-+-+-+-+-+-+-+
   |1 1 1 1 1 1 1 1|    Payload (if any) ...

Len counts options + payload marker + payload. Len 0..12 literal; 13: one extension
byte, value - 13; 14: two bytes, value - 269; 15: four bytes, value - 65805.
The body (options, marker, payload) is the RFC 7252 section 3.1 format.

Frame(code, token, options, payload): options = tuple of (number, raw value bytes)
in wire order.

encode(frame)            -> bytes            (Unrepresentable)
encode_raw(...)          -> bytes for deliberately malformed frames
frame_length(prefix)     -> total frame length or None if the prefix is too short to tell
split(stream)            -> ([frame bytes, ...], rest)
parse_frame(frame bytes) -> Frame            (Malformed with .kind)
decode_stream(stream)    -> ([Frame, ...], rest)   (Malformed)
"""

from collections import namedtuple

Frame = namedtuple("Frame", "code token options payload")

CSM, PING, PONG, RELEASE, ABORT = 0xE1, 0xE2, 0xE3, 0xE4, 0xE5
EMPTY = 0


class Malformed(Exception):
    def __init__(self, kind, text=""):
        Exception.__init__(self, kind, text)
        self.kind = kind


class Unrepresentable(Exception):
    pass


# ---- RFC 7252 3.1 option list -------------------------------------------------


def _ext_write(v):
    if v < 0:
        raise Unrepresentable("negative")
    if v <= 12:
        return v, b""
    if v <= 268:
        return 13, bytes([v - 13])
    if v <= 269 + 0xFFFF:
        return 14, (v - 269).to_bytes(2, "big")
    raise Unrepresentable("option delta/length too large")


def encode_options(options, sort=True):
    opts = list(options)
    if sort:
        opts.sort(key=lambda o: o[0])  # stable: repeated options keep their order
    out = bytearray()
    prev = 0
    for number, value in opts:
        dn, de = _ext_write(number - prev)
        ln, le = _ext_write(len(value))
        out.append((dn << 4) | ln)
        out += de
        out += le
        out += bytes(value)
        prev = number
    return bytes(out)


def encode_body(options, payload, sort=True):
    body = encode_options(options, sort)
    if payload:
        body += b"\xff" + bytes(payload)
    return body


def _ext_read(nib, data, pos):
    if nib <= 12:
        return nib, pos
    if nib == 13:
        if pos + 1 > len(data):
            raise Malformed("option-ext-truncated")
        return data[pos] + 13, pos + 1
    if nib == 14:
        if pos + 2 > len(data):
            raise Malformed("option-ext-truncated")
        return ((data[pos] << 8) | data[pos + 1]) + 269, pos + 2
    raise Malformed("option-nibble-15")


def parse_body(data):
    """-> (options, payload); Malformed on RFC 7252 3.1 format errors."""
    pos = 0
    number = 0
    options = []
    payload = b""
    while pos < len(data):
        b = data[pos]
        pos += 1
        if b == 0xFF:
            payload = bytes(data[pos:])
            if not payload:
                raise Malformed("marker-without-payload")
            break
        delta, pos = _ext_read(b >> 4, data, pos)
        length, pos = _ext_read(b & 15, data, pos)
        if pos + length > len(data):
            raise Malformed("option-overruns-frame")
        number += delta
        options.append((number, bytes(data[pos : pos + length])))
        pos += length
    return tuple(options), payload


# ---- RFC 8323 3.2 frame ---------------------------------------------------------


def encode_len(n):
    """-> (Len nibble, extended length bytes)"""
    if n < 0:
        raise Unrepresentable("negative length")
    if n <= 12:
        return n, b""
    if n <= 268:
        return 13, bytes([n - 13])
    if n <= 65804:
        return 14, (n - 269).to_bytes(2, "big")
    if n <= 65805 + 0xFFFFFFFF:
        return 15, (n - 65805).to_bytes(4, "big")
    raise Unrepresentable("length")


def encode_raw(code, token=b"", body=b"", tkl=None, length=None):
    """Frame from raw parts; tkl / length override the honest values (for malformed
    frames: tkl 9..15, a Len that disagrees with the bytes that follow)."""
    nib, ext = encode_len(len(body) if length is None else length)
    t = len(token) if tkl is None else tkl
    if not 0 <= t <= 15:
        raise Unrepresentable("tkl nibble")
    return bytes([(nib << 4) | t]) + ext + bytes([code]) + bytes(token) + bytes(body)


def encode(frame, sort=True):
    code, token, options, payload = frame
    if not 0 <= code <= 255:
        raise Unrepresentable("code")
    if len(token) > 8:
        raise Unrepresentable("token longer than 8")
    return encode_raw(code, token, encode_body(options, payload, sort))


def header(prefix):
    """-> (offset of code byte, tkl, body length) or None if more bytes are needed."""
    if not prefix:
        return None
    nib, tkl = prefix[0] >> 4, prefix[0] & 15
    if nib <= 12:
        return 1, tkl, nib
    extlen, base = {13: (1, 13), 14: (2, 269), 15: (4, 65805)}[nib]
    if len(prefix) < 1 + extlen:
        return None
    return 1 + extlen, tkl, int.from_bytes(prefix[1 : 1 + extlen], "big") + base


def frame_length(prefix):
    """Total number of bytes of the frame starting at prefix[0]; None if not yet known."""
    h = header(prefix)
    if h is None:
        return None
    codeoff, tkl, blen = h
    return codeoff + 1 + tkl + blen


def split(stream):
    """Cut a byte stream into complete frames (bytes) and the incomplete rest."""
    frames = []
    pos = 0
    view = bytes(stream)
    while True:
        n = frame_length(view[pos : pos + 5])
        if n is None or pos + n > len(view):
            return frames, view[pos:]
        frames.append(view[pos : pos + n])
        pos += n


def parse_frame(data):
    data = bytes(data)
    n = frame_length(data[:5])
    if n is None or n != len(data):
        raise Malformed("not-one-frame")
    codeoff, tkl, blen = header(data[:5])
    if tkl > 8:
        raise Malformed("tkl-above-8")
    code = data[codeoff]
    token = data[codeoff + 1 : codeoff + 1 + tkl]
    options, payload = parse_body(data[codeoff + 1 + tkl :])
    return Frame(code, token, options, payload)


def decode_stream(stream):
    raw, rest = split(stream)
    return [parse_frame(f) for f in raw], rest


def code_str(code):
    return "%d.%02d" % (code >> 5, code & 31)


def is_request(code):
    return 1 <= code <= 31


def is_response(code):
    return 64 <= code <= 191


def is_signalling(code):
    return code >= 224


def describe(frame):
    return {
        "code": code_str(frame.code),
        "token": frame.token.hex(),
        "options": [(n, v[:24].hex() + ("..." if len(v) > 24 else "")) for n, v in frame.options],
        "payload": frame.payload[:24].hex() + ("..." if len(frame.payload) > 24 else ""),
        "payload_len": len(frame.payload),
    }


def selftest():
    # hand-assembled from the RFC 8323 3.2 figure
    assert encode(Frame(0xE1, b"", (), b"")) == bytes.fromhex("00e1")
    assert encode(Frame(1, b"\xaa", ((11, b"a"),), b"")) == bytes.fromhex("2101aab161")
    assert encode(Frame(0x45, b"\xbb", (), b"h")) == bytes.fromhex("2145bbff68")
    assert encode(Frame(0xE2, b"\x01\x02", (), b"")) == bytes.fromhex("02e20102")
    # length boundaries: 12 | 13 | 268 | 269 | 65804 | 65805
    for n, head in [
        (0, "00"), (12, "c0"), (13, "d000"), (14, "d001"), (268, "d0ff"), (269, "e00000"), (270, "e00001"),
        (65804, "e0ffff"), (65805, "f000000000"), (65806, "f000000001"), (70000, "f000001063"),
    ]:
        body = b"\xff" + b"p" * (n - 1) if n else b""
        f = encode_raw(2, b"", body)
        assert f[: len(head) // 2].hex() == head, (n, f[:6].hex())
        assert frame_length(f[:5]) == len(f) == len(head) // 2 + 1 + n
        fr = parse_frame(f)
        assert fr == Frame(2, b"", (), b"p" * (n - 1) if n else b"")
        assert encode(fr) == f
        for cut in range(len(head) // 2):
            assert frame_length(f[:cut]) is None
    # token and options round trip
    fr = Frame(0x44, b"12345678", ((1, b""), (11, b"x" * 13), (11, b"y"), (300, b"z" * 269), (65804 + 300, b"")), b"\xff\x00")
    assert parse_frame(encode(fr)) == fr
    # stream splitting
    s = encode(Frame(0xE1, b"", ((2, b"\x10\x00\x00"), (4, b"")), b"")) + encode(fr) + bytes.fromhex("0000") + bytes.fromhex("d0")
    frames, rest = decode_stream(s)
    assert [f.code for f in frames] == [0xE1, 0x44, 0] and rest == b"\xd0" and frames[1] == fr
    assert frames[0].options == ((2, b"\x10\x00\x00"), (4, b""))
    # malformed
    for bad, kind in [
        (bytes.fromhex("09010102030405060708" + "09"), "tkl-above-8"),
        (bytes.fromhex("1001b5"), "option-overruns-frame"),
        (bytes.fromhex("1001f0"), "option-nibble-15"),
        (bytes.fromhex("10010f"), "option-nibble-15"),
        (bytes.fromhex("1001d0"), "option-ext-truncated"),
        (bytes.fromhex("2001e000"), "option-ext-truncated"),
        (bytes.fromhex("1001ff"), "marker-without-payload"),
        (bytes.fromhex("2001"), "not-one-frame"),
    ]:
        try:
            parse_frame(bad)
        except Malformed as e:
            assert e.kind == kind, (bad.hex(), e.kind)
        else:
            raise AssertionError(bad.hex())
    try:
        encode(Frame(1, b"123456789", (), b""))
    except Unrepresentable:
        pass
    else:
        raise AssertionError()
    assert encode_raw(1, b"", b"", tkl=9)[0] == 0x09
    return True


if __name__ == "__main__":
    print(selftest())
