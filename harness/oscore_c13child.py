"""Child driver for C13 mode B: one real process lifetime that dies by os._exit().

    /usr/bin/python3 -m harness.oscore_c13child <spec.json>

spec: {"dir", "ops", "chunk", "st", "crash": ["eff", k] | ["op", j], "log"}.
Every record crossing the API boundary is appended to spec["log"] with os.write (no user-space
buffering, so nothing is lost by _exit). Exit status 77 = died at the requested point,
78 = the requested effect was never reached (ran to the end, then died without clean-up)."""

import json
import os
import sys


def main():
    with open(sys.argv[1]) as f:
        spec = json.load(f)
    from harness import boot

    boot.setup_paths(shims=True)
    boot.assert_repo_aiocoap()
    from harness import oscore_c13 as h

    fd = os.open(spec["log"], os.O_WRONLY | os.O_CREAT | os.O_APPEND, 0o644)

    def out(rec):
        os.write(fd, (json.dumps(rec) + "\n").encode("utf8"))

    class Rec(h.Recorder):
        def issued(self, piv, how, data):
            out(["issued", piv, how])

        def refused(self, how, exc):
            out(["refused", how, type(exc).__name__])

        def protect_raised(self, how, exc):
            out(["protect_raised", how, type(exc).__name__])

        def accepted(self, n, echo):
            out(["accepted", n, echo is not None])

        def rejected(self, n, echo, exc):
            out(["rejected", n, echo is not None, type(exc).__name__])

        def note(self, what):
            out(["note", what])

    g = h.install()
    g.exit_mode = True
    kind, where = spec["crash"]
    g.reset(crash_after=where if kind == "eff" else None)
    st = dict(spec["st"])
    life = h.Lifetime(spec["dir"], h.Peer(), Rec(), chunk=tuple(spec["chunk"]) if spec["chunk"] else None)
    h.run_ops(life, spec["ops"], st, stop_after=where if kind == "op" else None)
    out(["end", g.n, g.bypassed])
    os._exit(h.EXIT_CRASH if kind == "op" else 78)


if __name__ == "__main__":
    main()
