"""Reference model of an RFC 9176 resource directory for check C20 (imports nothing from aiocoap).

* `resolve(base, ref)`           RFC 3986 section 5.2.2 reference resolution, written from the pseudo code
* `origin(uri)`                  `resolve(uri, "/")` -- the RFC 6690 default context of a link with an absolute target
* `Model`                        dictionary keyed by (ep, d) of the registrations a directory must list, with
                                 RFC 9176 section 5 (registration = replace), 5.3.1 (update: lt / base / extra
                                 attributes per key, links only on PUT), 5.3.2 (removal) and lifetime + grace expiry
* `Model.expected()`             what endpoint lookup (RFC 9176 section 6.3), resource lookup (6.2) and the
                                 registration resources must show, in an order-insensitive canonical form
* `canon_ep` / `canon_res` / `canon_links`   bring *observed* link-format (parsed by reflink) into the same form
* `representable_name` / `bad_authority` / `has_uri_delimiter` / `resolution_features` / `features` / `valueless_names`   what of a registration's content link-format
                                 (RFC 6690 parmname, quoted-pair) or RFC 3986 (authority) cannot carry as it stands;
                                 used by the check to NAME a mismatch after its mechanism and to count coverage

Canonical forms
  endpoint entry : (location, sorted tuple of (name, value|None))           name in ep, d, base, rt, extras
  resource entry : (absolute target, absolute anchor, sorted tuple of the other (name, value|None))
                   where a missing anchor is the origin of the target (RFC 9176 6.2 / RFC 6690 2.1: semantically
                   equivalent, so an RD may print or omit it)
  stored link    : (href as registered, sorted tuple of (name, value|None))
All three are compared as sorted lists (multisets): link-format order carries no meaning.
"""

import copy
import ipaddress
import re

from . import reflink

DEFAULT_LT = 90000  # RFC 9176 section 5: "lt ... If omitted, 90000 (25 hours)"

_RE_URI = re.compile(r"^(([^:/?#]+):)?(//([^/?#]*))?([^?#]*)(\?([^#]*))?(#(.*))?$")  # RFC 3986 appendix B


def _split(u):
    m = _RE_URI.match(u)
    return m.group(2), m.group(4), m.group(5), m.group(7), m.group(9)


def _remove_dots(path):
    """RFC 3986 5.2.4"""
    inp, out = path, []
    while inp:
        if inp.startswith("../"):
            inp = inp[3:]
        elif inp.startswith("./"):
            inp = inp[2:]
        elif inp.startswith("/./"):
            inp = inp[2:]
        elif inp == "/.":
            inp = "/"
        elif inp.startswith("/../"):
            inp = inp[3:]
            if out:
                out.pop()
        elif inp == "/..":
            inp = "/"
            if out:
                out.pop()
        elif inp in (".", ".."):
            inp = ""
        else:
            j = inp.find("/", 1)
            seg, inp = (inp, "") if j < 0 else (inp[:j], inp[j:])
            out.append(seg)
    return "".join(out)


def resolve(base, ref):
    """RFC 3986 5.2.2 (strict), 5.2.3 merge, 5.3 recomposition. The fragment of `ref` is kept.

    One thing the pseudo code of 5.3 leaves open: removing dot segments can leave a path that begins with "//" where
    there is no authority ("foo:/a/..//x", or "..//x" against "foo:/a/"). Written out as it is ("foo://x") that is
    another URI -- "x" would be read as the authority, and RFC 3986 3.3 rules it out: "If a URI does not contain an
    authority component, then the path cannot begin with two slash characters". The spelling that keeps the
    components is the one with a "." segment in front ("foo:/.//x"; the erratum to 5.2.4 and the WHATWG URL
    serializer do the same), and that is what this returns."""
    ts, ta, tp, tq, rf = resolve_parts(base, ref)
    out = ""
    if ts is not None:
        out += ts + ":"
    if ta is not None:
        out += "//" + ta
    elif tp.startswith("//"):
        out += "/."
    out += tp
    if tq is not None:
        out += "?" + tq
    if rf is not None:
        out += "#" + rf
    return out


def resolve_parts(base, ref):
    """-> (scheme, authority, path, query, fragment) of the target URI, RFC 3986 5.2.2"""
    bs, ba, bp, bq, _bf = _split(base)
    rs, ra, rp, rq, rf = _split(ref)
    if rs is not None:
        ts, ta, tp, tq = rs, ra, _remove_dots(rp), rq
    else:
        if ra is not None:
            ta, tp, tq = ra, _remove_dots(rp), rq
        else:
            if rp == "":
                tp = bp
                tq = rq if rq is not None else bq
            else:
                if rp.startswith("/"):
                    tp = _remove_dots(rp)
                else:
                    if ba is not None and bp == "":
                        merged = "/" + rp
                    else:
                        merged = bp[: bp.rfind("/") + 1] + rp
                    tp = _remove_dots(merged)
                tq = rq
            ta = ba
        ts = bs
    return ts, ta, tp, tq, rf


def origin(uri):
    return resolve(uri, "/")


def is_absolute(u):
    return _split(u)[0] is not None


def default_base(ip, port):
    """RFC 9176 5: without `base`, "the source address and source port of the request" as a CoAP URI
    (RFC 7252 6.1: the default port is omitted, IPv6 literals are bracketed)."""
    a = ipaddress.ip_address(ip)
    if isinstance(a, ipaddress.IPv6Address) and a.ipv4_mapped is not None:
        a = a.ipv4_mapped
    host = "[%s]" % a if isinstance(a, ipaddress.IPv6Address) else str(a)
    return "coap://" + host + ("" if port == 5683 else ":%d" % port)


def canon_origin_uri(u):
    """Comparison form of a scheme://authority URI: scheme and host lower-cased, IP literals normalised,
    default CoAP port removed, empty path == "/"."""
    s, a, p, q, f = _split(u)
    if s is None or a is None:
        return ("?", u)
    s = s.lower()
    host, port = a, None
    m = re.match(r"^(\[[^\]]*\]|[^:]*)(?::(\d*))?$", a)
    if m:
        host, port = m.group(1), m.group(2)
    try:
        ipa = ipaddress.ip_address(host.strip("[]"))
        if isinstance(ipa, ipaddress.IPv6Address) and ipa.ipv4_mapped is not None:
            ipa = ipa.ipv4_mapped
        host = str(ipa)
    except ValueError:
        host = host.lower()
    port = int(port) if port else None
    if s == "coap" and port == 5683:
        port = None
    return (s, host, port, p if p not in ("", "/") else "", q)


# ------------------------------------------------------------------ what link-format and RFC 3986 can carry

# RFC 6690 section 2: parmname = 1*attr-char (RFC 5987: ALPHA / DIGIT / "!#$&+-.^_`|~"), ext-name-star adds a "*"
_RE_PARMNAME = re.compile(r"^[A-Za-z0-9!#$&+\-.^_`|~*]+$")
# RFC 3986 3.2: authority = [ userinfo "@" ] host [ ":" port ]; "[" and "]" only as the delimiters of an IP-literal
_RE_REGNAME = re.compile(r"^(?:[A-Za-z0-9\-._~!$&'()*+,;=]|%[0-9A-Fa-f]{2})*$")
_RE_USERINFO = re.compile(r"^(?:[A-Za-z0-9\-._~!$&'()*+,;=:]|%[0-9A-Fa-f]{2})*$")
_RE_IPVFUTURE = re.compile(r"^v[0-9A-Fa-f]+\.[A-Za-z0-9\-._~!$&'()*+,;=:]+$")


def representable_name(name):
    """Can `name` be written as the name of a link-format attribute at all?"""
    return name is not None and _RE_PARMNAME.match(name) is not None


def bad_authority(uri):
    """True when `uri` has an authority component that RFC 3986 3.2 does not produce (unbalanced or misplaced
    brackets, something that is no IP literal between them, characters that would need percent-encoding): no
    reference can be resolved against such a string and it names nothing."""
    if uri is None:
        return False
    a = _split(uri)[1]
    if a is None:
        return False
    if "@" in a:
        ui, a = a.rsplit("@", 1)
        if not _RE_USERINFO.match(ui):
            return True
    m = re.match(r"^(.*?)(?::([0-9]*))?$", a, re.S)
    host = m.group(1)
    if host.startswith("["):
        if not host.endswith("]") or len(host) < 3:
            return True
        inner = host[1:-1]
        if _RE_IPVFUTURE.match(inner):
            return False
        try:
            ipaddress.IPv6Address(inner)
        except ValueError:
            return True
        return False
    return _RE_REGNAME.match(host) is None


# RFC 3986 appendix C (and RFC 2396 2.4.3 "delims", "space", "control"): the characters that delimit a URI in running
# text and can therefore never be part of one -- in particular not of the URI-Reference between '<' and '>' of a link
_RE_URI_DELIM = re.compile('[\x00-\x20\x7f<>"]')


def has_uri_delimiter(s):
    return s is not None and _RE_URI_DELIM.search(s) is not None


def _relative_path_ref(ref):
    """Is `ref` a relative-path reference with a non-empty path (the only kind whose path is MERGED with the base's,
    RFC 3986 5.2.3)?"""
    s, a, p, _q, _f = _split(ref)
    return s is None and a is None and p != "" and not p.startswith("/")


def resolution_features(r):
    """Which corners of RFC 3986 5.2 does resolving the links of `r` against its base touch?
    empty-path-segment     : a relative-path reference whose merged path has an empty segment ("//"), from the base's
                             directory or from the reference -- the segment is part of the path (5.2.3 merges strings,
                             5.2.4 removes only "." and "..")
    empty-query-reference  : a reference with an EMPTY (not absent) query: 5.2.2 takes the reference's query whenever it is
                             defined (also over a base's query), and 5.3 writes the "?" of a defined query"""
    f = set()
    _bs, ba, bp, _bq, _bf = _split(r.base)
    refs = [l.href for l in r.links] + [v for l in r.links for k, v in l.params if k == "anchor" and v is not None]
    for ref in refs:
        rs, ra, rp, rq, _rf = _split(ref)
        if _relative_path_ref(ref):
            merged = ("/" + rp) if (ba is not None and bp == "") else bp[: bp.rfind("/") + 1] + rp
            if "//" in merged:
                f.add("empty-path-segment")
        if rq == "":
            f.add("empty-query-reference")
    return f


def path_as_authority_refs(r):
    """The targets / anchors of `r` whose resolved form has no authority and a path beginning with "//" (see resolve())."""
    refs = [l.href for l in r.links] + [v for l in r.links for k, v in l.params if k == "anchor" and v is not None]
    out = []
    for x in refs:
        _ts, ta, tp, _tq, _tf = resolve_parts(r.base, x)
        if ta is None and tp.startswith("//"):
            out.append(x)
    return out


def features(r):
    """Which of the things a registration may legitimately be *asked* to store, but that a careless directory trips
    over, does the model registration `r` contain? (Used to name a violation after its mechanism and to count what
    the generated histories covered -- never to decide whether something is a violation.)"""
    f = set()
    if "link-escapes" in r.marks:
        f.add("link-attribute-value")
    ep, d = r.key
    for k, vs in r.extras:
        if not representable_name(k):
            f.add("parameter-name")
        for v in vs:
            if v is None:
                f.add("valueless-parameter")
            elif "\\" in v:
                f.add("parameter-value")
    if "\\" in ep or (d is not None and "\\" in d):
        f.add("parameter-value")
    if bad_authority(r.base):
        f.add("base")
    if has_uri_delimiter(r.base):
        f.add("delimiter-in-base")
    if any(has_uri_delimiter(l.href) for l in r.links):
        f.add("delimiter-in-link-target")
    f |= resolution_features(r)
    if path_as_authority_refs(r):
        f.add("path-as-authority")
    # RFC 8288 3 / RFC 5988 5.4: parameter names are case-insensitive
    if any(k.lower() == "anchor" and v is None for l in r.links for k, v in l.params):
        f.add("valueless-anchor")
    for l in r.links:
        for k, v in l.params:
            if v is None:
                f.add("valueless-link-attribute")
            elif "\\" in v:
                f.add("link-attribute-value")
            if k == "anchor" and bad_authority(v):
                f.add("link-target")
        if bad_authority(l.href):
            f.add("link-target")
    return f


def valueless_names(r):
    """Names of the registration parameters and link attributes of `r` that were given without a value."""
    out = set(k for k, vs in r.extras for v in vs if v is None)
    out.update(k for l in r.links for k, v in l.params if v is None)
    return out


# ------------------------------------------------------------------ query strings


def parse_query(qs):
    """[(name, value|None)] in order; `k` without '=' has value None (RFC 9176 uses k=v pairs in Uri-Query options)."""
    out = []
    for q in qs:
        if "=" in q:
            k, v = q.split("=", 1)
        else:
            k, v = q, None
        out.append((k, v))
    return out


def _values(pairs, name):
    return [v for (k, v) in pairs if k == name]


RESERVED = ("page", "count", "rt", "href", "anchor")  # RFC 9176 9.3: not usable as registration parameters


def _is_uint(v):
    return v is not None and re.match(r"^[0-9]+$", v) is not None


# ------------------------------------------------------------------ canonical forms


def _attrs(params):
    return tuple(sorted(params, key=lambda kv: (kv[0], "" if kv[1] is None else "=" + kv[1])))


def canon_links(links):
    return sorted((l.href, _attrs(l.params)) for l in links)


def canon_ep(links):
    return sorted((l.href, _attrs(l.params)) for l in links)


def canon_res_one(href, params):
    anchors = [v for (k, v) in params if k == "anchor"]
    rest = [(k, v) for (k, v) in params if k != "anchor"]
    anchor = anchors[0] if anchors else origin(href)
    return (href, anchor, _attrs(rest))


def canon_res(links):
    return sorted(canon_res_one(l.href, l.params) for l in links)


# ------------------------------------------------------------------ the model


class Reg:
    __slots__ = ("key", "loc", "lt", "base", "base_explicit", "extras", "links", "t", "alts", "writer", "unresolved", "slack", "marks", "latent")

    def __init__(self):
        # [(lt, why)] lifetimes of unsuccessful requests that were seen NOT to have restarted the timer (the registration
        # outlived them), but that the directory may have stored all the same: they would come into force with the next
        # successful update that carries no lt ("the previous lt is retained")
        self.latent = []
        # notes of the check about how the links were written on the wire (e.g. "link-escapes": quoted-pairs were
        # used); only ever used to name a violation, see features()
        self.marks = set()
        # The write happened somewhere in [t - slack, t]. Requests to the directory are answered within
        # milliseconds (slack 0); a simple registration (RFC 9176 5.1) is carried out at some instant between the
        # registrant's POST and the directory's answer, while the directory fetches /.well-known/core.
        self.slack = 0.0
        self.alts = []  # [(t, lt, why)] lifetimes a *rejected* request would have set had it been applied
        # set by the check after it has REPORTED that the directory lists this registration's links without
        # resolving them against the base: later expectations follow the observed form (resynchronisation)
        self.unresolved = False

    def expiry(self, grace):
        return self.t + self.lt + grace

    def ep_entry(self):
        ep, d = self.key
        params = [("ep", ep)]
        if d is not None:
            params.append(("d", d))
        for k, vs in self.extras:
            for v in vs:
                params.append((k, v))
        params.append(("base", self.base))
        params.append(("rt", "core.rd-ep"))
        return (self.loc, _attrs(params))

    def res_entries(self):
        if self.unresolved:
            return self.unresolved_res_entries()
        out = []
        for l in self.links:
            href = resolve(self.base, l.href)
            rest = [(k, v) for (k, v) in l.params if k != "anchor"]
            anchors = [v for (k, v) in l.params if k == "anchor"]
            anchor = resolve(self.base, anchors[0]) if anchors and anchors[0] is not None else origin(href)
            out.append((href, anchor, _attrs(rest)))
        return out

    def unresolved_res_entries(self):
        """What a directory shows that did NOT resolve the links against the base (classification only)."""
        return [canon_res_one(l.href, l.params) for l in self.links]


class Unappliable(Exception):
    """The request cannot be given a meaning (used when asking "what if it had been applied")."""


class Model:
    def __init__(self, grace):
        self.grace = grace
        self.live = {}  # (ep, d) -> Reg
        self.ghosts = []  # expired in the model, but a rejected request's lifetime would keep them alive
        self.freed = []  # locations of removed / expired registrations (most recent last)

    def clone(self):
        return copy.deepcopy(self)

    # -- time -----------------------------------------------------------------
    def boundaries(self):
        out = []
        for r in list(self.live.values()) + self.ghosts:
            out.append(r.expiry(self.grace))
            for t, lt, _why in r.alts:
                out.append(t + lt + self.grace)
        return out

    def windows(self):
        """[(lo, hi)]: intervals in which the liveness of some registration is not determined by the statement
        (degenerate lo == hi unless the instant of the write is only known up to `slack`)."""
        out = []
        for r in list(self.live.values()) + self.ghosts:
            e = r.expiry(self.grace)
            out.append((e - r.slack, e))
            for t, lt, _why in r.alts:
                out.append((t + lt + self.grace, t + lt + self.grace))
        return out

    def expire(self, now):
        """Remove what is past lifetime + grace. -> list of expired Reg"""
        gone = []
        for k, r in list(self.live.items()):
            if now >= r.expiry(self.grace):
                del self.live[k]
                self._free(r.loc)
                gone.append(r)
                if any(now < t + lt + self.grace for (t, lt, _w) in r.alts):
                    self.ghosts.append(r)
        self.ghosts = [g for g in self.ghosts if any(now < t + lt + self.grace for (t, lt, _w) in g.alts) and g.key not in self.live]
        return gone

    def _free(self, loc):
        if loc in self.freed:
            self.freed.remove(loc)
        self.freed.append(loc)

    def at(self, loc):
        for r in self.live.values():
            if r.loc == loc:
                return r
        return None

    # -- writes ----------------------------------------------------------------
    def register(self, key, loc, query, links, src, now, lenient=False, slack=0.0):
        """RFC 9176 5: a registration for an (ep, d) that exists replaces it entirely. (A simple registration,
        5.1, is the same write with the links the directory fetched and the registrant's address as base.)"""
        pairs = [(k, v) for (k, v) in query if k not in ("ep", "d")]
        r = Reg()
        r.key, r.loc, r.t, r.writer = key, loc, now, src
        r.slack = slack
        r.lt = DEFAULT_LT
        r.base, r.base_explicit = default_base(*src), False
        r.extras = []
        self._apply_params(r, pairs, src, lenient)
        r.links = list(links)
        old = self.live.get(key)
        if old is not None and old.loc != loc:
            self._free(old.loc)
        if loc in self.freed:
            self.freed.remove(loc)
        self.ghosts = [g for g in self.ghosts if g.key != key and g.loc != loc]
        self.live[key] = r
        return r

    def update(self, reg, query, src, now, links=None, lenient=False):
        """RFC 9176 5.3.1: lt replaces (else the previous one is kept), base replaces / an explicit one is kept /
        otherwise the source address of the update, extra attributes override per key; the links stay (POST)
        or are replaced (PUT, an extension)."""
        old_base = reg.base
        self._apply_params(reg, list(query), src, lenient)
        reg.t = now
        reg.slack = 0.0
        reg.writer = src
        if any(k == "lt" for (k, _v) in query):
            reg.alts = []
            reg.latent = []
        else:
            # "the previous lt is retained": if a rejected request had changed it unseen, it is that one
            kept = []
            for lt, why in [(lt, why) for (_t, lt, why) in reg.alts] + list(reg.latent):
                if lt != reg.lt and not any(a[1] == lt and a[2] == why for a in kept):
                    kept.append((now, lt, why))
            reg.alts = kept
        if reg.base != old_base:
            reg.unresolved = False
        if links is not None:
            reg.links = list(links)
            reg.marks = set()

    def note_rejected(self, reg, query, now, why):
        """A request addressed to `reg` was answered 4.xx. lt is not visible in any lookup (RFC 9176 6.3), so
        whether the request nevertheless set / restarted the lifetime can only be seen at a later boundary:
        remember the lifetimes it would have produced."""
        lts = _values(list(query), "lt")
        if len(lts) == 1 and _is_uint(lts[0]):
            cand = [(int(lts[0]), why)]
        else:
            # the lifetime it would have restarted is the current one -- or one that an earlier unsuccessful request
            # left behind unseen, which then stays filed under that earlier request
            cand = [(reg.lt, why)] + [(lt, w) for (_t, lt, w) in reg.alts if lt != reg.lt] + [(lt, w) for (lt, w) in reg.latent if lt != reg.lt]
        for lt, w in dict.fromkeys(cand):
            reg.alts.append((now, lt, w))

    def prune_refuted(self, now):
        """Called when every live registration was just seen listed: a remembered lifetime that would have
        ended by now is refuted."""
        for r in self.live.values():
            for t, lt, w in r.alts:
                if t + lt + self.grace <= now and lt != r.lt and (lt, w) not in r.latent:
                    r.latent.append((lt, w))  # did not restart the timer; may have been stored nevertheless
            r.alts = [(t, lt, w) for (t, lt, w) in r.alts if t + lt + self.grace > now]

    def _apply_params(self, r, pairs, src, lenient):
        lts = _values(pairs, "lt")
        bases = _values(pairs, "base")
        bad = False
        new_lt, new_base = r.lt, (r.base, r.base_explicit)
        if lts:
            if len(lts) == 1 and _is_uint(lts[0]):
                new_lt = int(lts[0])
            else:
                bad = True
        if bases:
            if len(bases) == 1 and bases[0] is not None:
                new_base = (bases[0], True)
            else:
                bad = True
        elif not r.base_explicit:
            new_base = (default_base(*src), False)
        extras = {}
        order = []
        for k, v in pairs:
            if k in ("lt", "base"):
                continue
            if k in ("ep", "d") or k in RESERVED:
                bad = True
                continue
            if k not in extras:
                extras[k] = []
                order.append(k)
            extras[k].append(v)
        if bad and not lenient:
            raise Unappliable()
        r.lt = new_lt
        r.base, r.base_explicit = new_base
        cur =[(k, list(vs)) for (k, vs) in r.extras]
        names = [k for (k, _vs) in cur]
        for k in order:
            if k in names:
                cur[names.index(k)] = (k, extras[k])
            else:
                cur.append((k, extras[k]))
                names.append(k)
        r.extras = cur

    def remove(self, reg):
        if self.live.get(reg.key) is reg:
            del self.live[reg.key]
            self._free(reg.loc)

    # -- expectations -----------------------------------------------------------
    def expected(self):
        regs = sorted(self.live.values(), key=lambda r: r.loc)
        return {
            "ep": sorted(r.ep_entry() for r in regs),
            "res": sorted(e for r in regs for e in r.res_entries()),
            "reg": {r.loc: canon_links(r.links) for r in regs},
        }

    # -- RFC 9176 6.1 filtering (single criterion) ---------------------------------
    def _ep_matches(self, r, name, pat):
        if name == "href":
            return _match(pat, [r.loc])
        ep, d = r.key
        vals = []
        if name == "ep":
            vals = [ep]
        elif name == "d":
            vals = [d] if d is not None else []
        else:
            for k, vs in r.extras:
                if k == name:
                    vals = [v for v in vs if v is not None]
        return _match(pat, vals)

    def _link_matches(self, entry, name, pat):
        href, anchor, rest = entry
        if name == "href":
            return _match(pat, [href])
        vals = []
        for k, v in rest:
            if k == name and v is not None:
                if name in ("rt", "if"):
                    vals.extend(x for x in v.split(" ") if x != "")  # (an empty list of types has no member to match)
                else:
                    vals.append(v)  # an empty value is a value: `name=*` (any prefix) matches it
        return _match(pat, vals)

    def filtered(self, name, pat):
        """-> (endpoint entries, resource entries) matching one `name=pat` criterion.
        RFC 9176 6.1: "A resource link also matches a search criterion if its endpoint would match the criterion,
        and vice versa, an endpoint link matches a search criterion if any of its resource links matches it." """
        eps, res = [], []
        for r in self.live.values():
            em = self._ep_matches(r, name, pat)
            entries = r.res_entries()
            lm = [self._link_matches(e, name, pat) for e in entries]
            if em or any(lm):
                eps.append(r.ep_entry())
            for e, m in zip(entries, lm):
                if em or m:
                    res.append(e)
        return sorted(eps), sorted(res)


def _match(pat, vals):
    if pat.endswith("*"):
        return any(v.startswith(pat[:-1]) for v in vals)
    return any(v == pat for v in vals)


def diff(exp, obs):
    """Readable difference of two sorted lists."""
    e, o = list(exp), list(obs)
    missing = [x for x in e if x not in o]
    extra = [x for x in o if x not in e]
    return {"missing": missing[:6], "unexpected": extra[:6]}


def selftest():
    base = "http://a/b/c/d;p?q"  # RFC 3986 5.4.1 / 5.4.2
    for ref, want in [
        ("g:h", "g:h"), ("g", "http://a/b/c/g"), ("./g", "http://a/b/c/g"), ("g/", "http://a/b/c/g/"), ("/g", "http://a/g"),
        ("//g", "http://g"), ("?y", "http://a/b/c/d;p?y"), ("g?y", "http://a/b/c/g?y"), ("#s", "http://a/b/c/d;p?q#s"),
        ("g#s", "http://a/b/c/g#s"), ("g?y#s", "http://a/b/c/g?y#s"), (";x", "http://a/b/c/;x"), ("g;x", "http://a/b/c/g;x"),
        ("g;x?y#s", "http://a/b/c/g;x?y#s"), ("", "http://a/b/c/d;p?q"), (".", "http://a/b/c/"), ("./", "http://a/b/c/"),
        ("..", "http://a/b/"), ("../", "http://a/b/"), ("../g", "http://a/b/g"), ("../..", "http://a/"), ("../../", "http://a/"),
        ("../../g", "http://a/g"), ("../../../g", "http://a/g"), ("../../../../g", "http://a/g"), ("/./g", "http://a/g"),
        ("/../g", "http://a/g"), ("g.", "http://a/b/c/g."), (".g", "http://a/b/c/.g"), ("g..", "http://a/b/c/g.."),
        ("..g", "http://a/b/c/..g"), ("./../g", "http://a/b/g"), ("./g/.", "http://a/b/c/g/"), ("g/./h", "http://a/b/c/g/h"),
        ("g/../h", "http://a/b/c/h"), ("g;x=1/./y", "http://a/b/c/g;x=1/y"), ("g;x=1/../y", "http://a/b/c/y"),
        ("g?y/./x", "http://a/b/c/g?y/./x"), ("g#s/./x", "http://a/b/c/g#s/./x"), ("http:g", "http:g"),
    ]:
        got = resolve(base, ref)
        assert got == want, (ref, got, want)
    assert resolve("coap://[2001:db8::1]", "x/y") == "coap://[2001:db8::1]/x/y"
    assert resolve("coap://10.0.0.2:40000", "/s/t") == "coap://10.0.0.2:40000/s/t"
    assert origin("coap://h:1/p/q?x") == "coap://h:1/"
    assert default_base("::ffff:10.0.0.2", 40000) == "coap://10.0.0.2:40000"
    assert default_base("2001:db8::2", 5683) == "coap://[2001:db8::2]"
    assert canon_origin_uri("COAP://[2001:DB8::2]:5683/") == canon_origin_uri("coap://[2001:db8:0::2]")
    for name, ok in [("foo", True), ("et", True), ("title*", True), ("", False), ("a b", False), ("a;b", False), ("x,</reg/9/>;ep", False), ('a"b', False), ("a/b", False), ("n\u00e9", False), ("a%b", False), (None, False)]:
        assert representable_name(name) == ok, name
    for uri, bad in [
        ("coap://[2001:db8::1]", False), ("coap://[2001:db8::1]:61616/p", False), ("coap://host.example:61616/p/q", False), ("coap+tcp://h.example/dev/", False),
        ("coap://10.0.0.2:40000", False), ("coap://[v1.fe:x]/", False), ("coap://u:p@h/", False), ("coap://h%41/", False), ("/rel", False), ("x", False), ("", False), (None, False),
        ("coap://[", True), ("coap://[::1", True), ("coap://[zz]/p/", True), ("coap://h.example]/x", True), ("coap://[]/", True), ("coap://[::1]x/", True),
        ("coap://ex\u2100mple/", True), ("http://[", True), ("//[::1/x", True), ("coap://a b/", True), ("coap://h/[", False),
    ]:
        assert bad_authority(uri) == bad, uri
    # empty segments and empty queries are kept (RFC 3986 5.2.3 merge, 5.2.4, 5.2.2)
    for base, ref, want in [
        ("coap://h/fw//v2/", "status", "coap://h/fw//v2/status"), ("coap://h/dev/", "a//b", "coap://h/dev/a//b"), ("coap://h/dev/", "/a//b", "coap://h/a//b"),
        ("coap://h", "a//b", "coap://h/a//b"), ("coap://h/a/b//", "c", "coap://h/a/b//c"), ("coap://h/dev/", "./c//d/../e", "coap://h/dev/c//e"),
        ("coap://h/dev/", "x//", "coap://h/dev/x//"), ("coap://h/a//b/", "../c", "coap://h/a//c"), ("coap://h/a//b/", "../../c", "coap://h/a/c"),
        ("coap://h/p/q?x=1", "?", "coap://h/p/q?"), ("coap://h/p/q?x=1", "", "coap://h/p/q?x=1"), ("coap://h/p/q?x=1", "?y", "coap://h/p/q?y"),
        ("coap://h/p/q?x=1", "r", "coap://h/p/r"), ("coap://h/p/q?x=1", "#f", "coap://h/p/q?x=1#f"), ("coap://h/p/q?x=1", "?#f", "coap://h/p/q?#f"),
        ("coap+x://h/p/", "r//s", "coap+x://h/p/r//s"),
    ]:
        assert resolve(base, ref) == want, (base, ref, resolve(base, ref), want)
    for base, ref, want in [
        ("coap://h/p/", "foo:/a/..//x", "foo:/.//x"), ("coap://h/p/", "foo:/.//[bad", "foo:/.//[bad"), ("foo:/a/", "..//x", "foo:/.//x"), ("foo:/a/b/", "../..//x?q#f", "foo:/.//x?q#f"),
        ("foo:/.//x", "/", "foo:/"), ("foo:/.//x", "y", "foo:/.//y"), ("coap://h/p/q", "../..//t/y", "coap://h//t/y"), ("foo:/a/", "//x/y", "foo://x/y"), ("foo:a/b", "../..//x", "foo:/.//x"),
    ]:
        assert resolve(base, ref) == want, (base, ref, resolve(base, ref), want)
    for t, bad in [("coap://h/a>b", True), ("a<b", True), ("a b", True), ('a"b', True), ("a\tb", True), ("a\x7fb", True), ("coap://h/a,b;c='d'(e)*!$&+=:@%41", False), ("", False), (None, False), ("a\\b^`{|}", False), ("\u00fc", False)]:
        assert has_uri_delimiter(t) == bad, t
    m = Model(15)
    L = reflink.parse('</a>;rt="x y",<r>;anchor="/z"')
    r = m.register(("n", None), "/reg/1/", parse_query(["ep=n", "lt=60", "foo=1"]), L, ("10.0.0.2", 40000), 0.0)
    assert r.ep_entry() == ("/reg/1/", (("base", "coap://10.0.0.2:40000"), ("ep", "n"), ("foo", "1"), ("rt", "core.rd-ep")))
    assert sorted(r.res_entries()) == [("coap://10.0.0.2:40000/a", "coap://10.0.0.2:40000/", (("rt", "x y"),)), ("coap://10.0.0.2:40000/r", "coap://10.0.0.2:40000/z", ())]
    assert m.filtered("rt", "y")[1] == [("coap://10.0.0.2:40000/a", "coap://10.0.0.2:40000/", (("rt", "x y"),))]
    assert len(m.filtered("ep", "n")[1]) == 2 and m.filtered("ep", "m") == ([], [])
    m2 = Model(15)
    m2.register(("v", None), "/reg/9/", parse_query(["ep=v"]), reflink.parse('</e>;rel="";rt="";obs,</f>;rel="x"'), ("10.0.0.2", 40000), 0.0)
    assert len(m2.filtered("rel", "*")[1]) == 2 and len(m2.filtered("rel", "x")[1]) == 1 and m2.filtered("rt", "*")[1] == [] and m2.filtered("obs", "*")[1] == []
    m.update(r, parse_query(["foo=2", "bar"]), ("10.0.0.3", 5683), 10.0)
    assert r.base == "coap://10.0.0.3" and r.lt == 60 and r.extras == [("foo", ["2"]), ("bar", [None])]
    try:
        m.update(r, parse_query(["lt=abc"]), ("10.0.0.3", 5683), 10.0)
    except Unappliable:
        pass
    else:
        raise AssertionError()
    assert m.windows() == [(85.0, 85.0)]
    assert not m.expire(84.9) and [g.key for g in m.expire(85.0)] == [("n", None)] and m.freed == ["/reg/1/"]
    s = m.register(("s", "x"), "/reg/2/", parse_query(["ep=s", "d=x", "lt=60"]), [], ("2001:db8::2", 61616), 200.0, slack=93.0)
    assert s.base == "coap://[2001:db8::2]:61616" and not s.base_explicit and m.windows() == [(182.0, 275.0)]
    m.update(s, parse_query([]), ("2001:db8::2", 61616), 210.0)
    assert m.windows() == [(285.0, 285.0)]
    assert features(s) == set() and valueless_names(s) == set()
    o = m.register(("tr\\", None), "/reg/3/", parse_query(["ep=tr\\", "a;b=c", "if", "foo=x\\", "base=coap://["]), reflink.parse('</a>;obs;title="q\\\\",<http://[>,</b>;anchor="//[zz]"'), ("10.0.0.2", 5683), 300.0)
    assert features(o) == {"parameter-name", "parameter-value", "valueless-parameter", "base", "link-attribute-value", "valueless-link-attribute", "link-target"}, features(o)
    assert valueless_names(o) == {"if", "obs"}
    e = m.register(("e", None), "/reg/4/", parse_query(["ep=e", "base=coap://h/fw//v2/?x=1"]), reflink.parse("<status>,</abs//x>,<?>"), ("10.0.0.2", 5683), 300.0)
    assert resolution_features(e) == {"empty-path-segment", "empty-query-reference"} and "delimiter-in-base" not in features(e)
    e = m.register(("e", None), "/reg/4/", parse_query(["ep=e", "base=coap://h/a>b/"]), reflink.parse("</abs//x>,<?>,<r>,<q r>"), ("10.0.0.2", 5683), 300.0)
    assert features(e) == {"delimiter-in-base", "delimiter-in-link-target", "empty-query-reference"}, features(e)
    m.remove(e)
    m.note_rejected(s, parse_query(["lt=2"]), 215.0, "update-put")
    m.prune_refuted(240.0)
    assert s.alts == [] and s.latent == [(2, "update-put")]
    m.update(s, parse_query([]), ("2001:db8::2", 61616), 241.0)
    assert s.alts == [(241.0, 2, "update-put")] and s.lt == 60
    m.update(s, parse_query(["lt=60"]), ("2001:db8::2", 61616), 242.0)
    assert s.alts == [] and s.latent == []
    m.note_rejected(s, parse_query(["lt=7"]), 220.0, "update-post")
    m.note_rejected(s, parse_query([]), 230.0, "update-put")
    assert s.alts == [(220.0, 7, "update-post"), (230.0, 60, "update-put"), (230.0, 7, "update-post")], s.alts
    return True


if __name__ == "__main__":
    print(selftest())
