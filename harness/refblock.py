"""Independent RFC 7959 block-wise *server* on a raw simnet peer (imports nothing from aiocoap).

It reassembles Block1 bodies by offset, serves Block2 slices of a representation with an ETag,
negotiates block sizes (initial and mid-transfer reduction), de-duplicates by (source, MID),
records every block request it saw, and can misbehave in scripted ways.

RFC 8323 section 6 (BERT) is understood when the peer is known to be capable of it (`peer_bert`, what a
CSM exchange establishes on the reliable transports): a block option with SZX 7 counts NUM in units of
1024 bytes just like SZX 6, the payload of a non-final BERT block is a non-zero multiple of 1024 bytes,
the payload of a final one is arbitrary. A server with `szx=7` echoes SZX 7 in its Block1
acknowledgements and serves `bert_blocks` x 1024 bytes per Block2 response; a server with `szx<=6`
accepts BERT request blocks and answers with its smaller size (the client then continues at the same
byte offset in the smaller unit). Without `peer_bert` the value 7 is reserved (4.00)."""

from . import refcodec as rc
from .simnet import RawPeer


def unit(szx):
    """bytes that one step of NUM stands for"""
    return 1024 if szx == 7 else 1 << (szx + 4)


class Transfer:
    def __init__(self):
        self.body = bytearray()
        self.blocks = []  # (num, more, szx, len, offset) of accepted Block1 requests
        self.complete = False


class BlockServer:
    def __init__(self, net, ip, port, *, szx=6, representation=b"", etag=b"v1", reduce_block1_at=None, reduce_block2_at=None, misbehave=None, misbehave_at=1, success_code=None, fail_block1_at=None, peer_bert=False, bert_blocks=1, misbehave_arg=None):
        self.net = net
        self.szx = szx  # largest block size exponent the server accepts / uses
        self.representation = representation
        self.etag = etag
        self.reduce_block1_at = reduce_block1_at  # (block index in arrival order, new szx)
        self.reduce_block2_at = reduce_block2_at  # (n-th block2 response, new szx)
        self.misbehave = misbehave
        self.misbehave_at = misbehave_at
        self.success_code = success_code
        self.fail_block1_at = fail_block1_at  # (index of the Block1 request in arrival order, error code, echo the option?)
        self.failed_block1 = 0
        self.peer_bert = peer_bert  # the peer is known to understand BERT (RFC 8323 section 6)
        self.bert_blocks = bert_blocks  # 1024-byte blocks per BERT response of a server with szx == 7
        self.misbehave_arg = misbehave_arg or {}
        self.first_later = 0  # first Block2 responses that carried a later block than the one due
        self.code_changed = 0  # later Block2 responses sent with another response code
        self.changed_first = None  # (code, payload) of the first of them
        self.bert_served = 0  # Block2 responses with SZX 7
        self.b1_opt_missing = 0  # Block1 acknowledgements sent without a Block1 option
        self.b2_opt_missing = 0  # later Block2 responses sent without a Block2 option
        self.size_grown = 0  # non-final Block2 responses in larger blocks than the request asked for / than before
        self.seen = []  # every distinct request: dict(code, b1, b2, plen, t, size1)
        self.transfers = {}  # (src, path) -> Transfer
        self.completed_bodies = []  # (path, bytes) of completely reassembled request bodies
        self.dedup = {}
        self.b1_count = 0
        self.b2_count = 0
        self.served = []  # (offset, len) slices served
        self.peer = RawPeer(net, ip, port, self._on_msg)
        self.addr = self.peer.addr

    # -- message layer ---------------------------------------------------
    def _on_msg(self, peer, src, m, raw):
        if m is None or not rc.is_request(m.code):
            return
        key = (src, m.mid)
        if key in self.dedup:
            if self.dedup[key] is not None and m.type == rc.CON:
                peer.send(src, self.dedup[key])
            return
        resp = self._handle(src, m)
        if resp is None:
            self.dedup[key] = None
            return
        code, opts, payload = resp
        if m.type == rc.CON:
            out = rc.Msg(rc.ACK, code, m.mid, m.token, tuple(sorted(opts, key=lambda o: o[0])), payload)
        else:
            out = rc.Msg(rc.NON, code, peer.next_mid(), m.token, tuple(sorted(opts, key=lambda o: o[0])), payload)
        self.dedup[key] = out
        peer.send(src, out)

    # -- request layer ---------------------------------------------------
    def _handle(self, src, m):
        b1 = rc.opt1(m, rc.BLOCK1)
        b2 = rc.opt1(m, rc.BLOCK2)
        b1 = rc.block_value(b1) if b1 is not None else None
        b2 = rc.block_value(b2) if b2 is not None else None
        path = tuple(rc.opt(m, rc.URI_PATH))
        size1 = rc.opt1(m, rc.SIZE1)
        rec = {"ack1": None}
        self.seen.append(rec)
        rec.update({"code": m.code, "b1": b1, "b2": b2, "plen": len(m.payload), "t": self.net.loop.time(), "size1": rc.uint_value(size1) if size1 is not None else None, "path": path, "payload": m.payload})
        opts = []
        tkey = (src, path)
        body = None
        if (b1 is not None and b1[2] == 7 or b2 is not None and b2[2] == 7) and not self.peer_bert:
            return (rc.c(4, 0), [], b"SZX 7 is reserved")
        if b1 is not None:
            num, more, szx = b1
            size = unit(szx)
            offset = num * size
            tr = self.transfers.get(tkey)
            if num == 0:
                tr = self.transfers[tkey] = Transfer()
            if szx == 7:
                # BERT: a non-final block is a non-empty sequence of whole 1024-byte blocks, a final one is arbitrary
                badlen = more and (len(m.payload) == 0 or len(m.payload) % 1024 != 0)
            else:
                badlen = (more and len(m.payload) != size) or len(m.payload) > size
            if tr is None or offset != len(tr.body) or badlen:
                return (rc.c(4, 8), [], b"incomplete")
            idx = self.b1_count
            if self.fail_block1_at is not None and idx == self.fail_block1_at[0]:
                # a conforming refusal in the middle of (or at the end of) an upload, e.g. 4.13 or 4.01
                self.b1_count += 1
                self.failed_block1 += 1
                self.transfers.pop(tkey, None)
                return (self.fail_block1_at[1], [(rc.BLOCK1, rc.block_bytes(num, False, min(szx, self.szx)))] if self.fail_block1_at[2] else [], b"refused")
            tr.body += m.payload
            tr.blocks.append((num, more, szx, len(m.payload), offset))
            self.b1_count += 1
            ack_szx = min(szx, self.szx)
            if self.reduce_block1_at is not None and idx >= self.reduce_block1_at[0]:
                ack_szx = min(ack_szx, self.reduce_block1_at[1])
            rec["ack1"] = (num, more, ack_szx)  # the size the server answered with (for the oracles' context)
            ack_num = num
            if self.misbehave == "b1-wrong-num" and idx == self.misbehave_at:
                ack_num = num + 1
            if self.misbehave == "b1-wrong-num-final" and not more and num > 0:
                ack_num = num - 1
            if self.misbehave == "b1-option-missing":
                # the acknowledgement of a block comes without a Block1 option: a success code (or a bare 2.31) in
                # answer to a non-final block, which the server took, while the rest of the body is still due; or a bare
                # 2.31 Continue in answer to the final block, after which nothing is left to continue with
                where = self.misbehave_arg.get("where", "nonfinal")
                bare = rc.c(2, 31) if self.misbehave_arg.get("code", "final") == "continue" else (self.success_code if self.success_code is not None else (rc.c(2, 5) if m.code in (1, 5) else rc.c(2, 4)))
                if more and where == "nonfinal" and idx >= self.misbehave_at:
                    self.b1_opt_missing += 1
                    return (bare, [], b"")
                if not more and where == "final":
                    self.b1_opt_missing += 1
                    self.completed_bodies.append((path, bytes(tr.body)))
                    del self.transfers[tkey]
                    return (rc.c(2, 31), [], b"")
            if more:
                extra = [(6, b"\x05")] if (self.misbehave == "b1-observe-in-continue" and idx >= self.misbehave_at) else []
                return (rc.c(2, 31), extra + [(rc.BLOCK1, rc.block_bytes(ack_num, True, ack_szx))], b"")
            tr.complete = True
            body = bytes(tr.body)
            self.completed_bodies.append((path, body))
            del self.transfers[tkey]
            if self.misbehave == "b1-more-on-final":
                return (rc.c(2, 4), [(rc.BLOCK1, rc.block_bytes(ack_num, True, ack_szx))], b"")
            if self.misbehave == "b1-continue-on-final":
                return (rc.c(2, 31), [(rc.BLOCK1, rc.block_bytes(ack_num, False, ack_szx))], b"")
            opts.append((rc.BLOCK1, rc.block_bytes(ack_num, False, ack_szx)))
        elif m.payload or m.code in (2, 3, 5, 6, 7):
            if b2 is None or b2[0] == 0:
                body = bytes(m.payload)
                self.completed_bodies.append((path, body))
        # ---- response with the representation, Block2 if needed ----
        rep = self.representation
        etag = self.etag
        code = self.success_code if self.success_code is not None else (rc.c(2, 5) if m.code in (1, 5) else rc.c(2, 4))
        # the size the server uses of its own accord: BERT only towards a peer known to be capable of it
        own_szx = self.szx if (self.szx < 7 or self.peer_bert) else 6
        want_off, want_szx = 0, own_szx
        if b2 is not None:
            # control usage: the client asks for the block at NUM x unit in blocks of at most its SZX; a smaller
            # server size serves the same offset in smaller blocks
            want_off = b2[0] * unit(b2[2])
            want_szx = min(b2[2], own_szx)
        idx2 = self.b2_count
        if self.reduce_block2_at is not None and idx2 >= self.reduce_block2_at[0] and want_szx > self.reduce_block2_at[1]:
            want_szx = self.reduce_block2_at[1]
        grew = False
        if self.misbehave == "b2-size-grows-aligned" and idx2 >= self.misbehave_at and want_off > 0 and want_szx < 6:
            # where the offset happens to be aligned, a later block is sent in a larger size than the one in use
            # (well-formed in itself: its number and more-flag fit its size and offset)
            target = min(want_szx + self.misbehave_arg.get("grow", 1), 6)
            while target > want_szx and want_off % unit(target):
                target -= 1
            grew, want_szx = target > want_szx, target
        if self.misbehave == "b2-ignores-requested-size" and b2 is not None and want_szx < min(own_szx, 6) and want_off % unit(min(own_szx, 6)) == 0:
            # the size the client asks for (or the server itself reduced to) is ignored where the offset allows it:
            # the block comes in the server's own size
            grew, want_szx = True, min(own_szx, 6)
        u = unit(want_szx)
        size = u * self.bert_blocks if want_szx == 7 else u  # payload bytes per response
        want_num = want_off // u
        first_later = self.misbehave == "b2-first-later-block" and idx2 == 0 and want_off == 0
        if b2 is None and len(rep) <= size and not first_later:
            if etag:
                opts.append((rc.ETAG, etag))
            return (code, opts, rep)
        self.b2_count += 1
        mis = self.misbehave if idx2 >= self.misbehave_at else None
        if mis in ("etag-changes", "etag-vanishes", "etag-appears"):
            # the representation changes between blocks; its entity-tag changes with it (another value, no
            # ETag option any more where there was one, an ETag option where there was none)
            etag = b"" if mis == "etag-vanishes" else b"v2"
            rep = bytes((x + 1) & 0xFF for x in rep)
        if mis in ("b2-repeat-prev", "b2-restart-0") and idx2 == self.misbehave_at and want_num > 0:
            # answers the request for block n with a well-formed earlier block (its own number, content and more-flag)
            want_num = want_num - 1 if mis == "b2-repeat-prev" else 0
            self.repeated_earlier = getattr(self, "repeated_earlier", 0) + 1
        offset = want_num * u
        forced_num = None
        if first_later:
            # where block 0 is due (the response to a request without Block2 / asking for block 0, the final
            # Block1 acknowledgement), the server sends a later block: a well-formed one of a longer
            # representation (its own number, content and more-flag; the last one if misbehave_at points beyond),
            # or a single-block representation under a non-zero block number
            self.first_later += 1
            nresp = -(-len(rep) // size)
            if nresp <= 1:
                forced_num = self.misbehave_at + 1
            else:
                offset = min(self.misbehave_at + 1, nresp - 1) * size
                want_num = offset // u
        if offset >= len(rep) and len(rep) > 0 or offset > len(rep):
            return (rc.c(4, 0), [], b"out of range")
        chunk = rep[offset : offset + size]
        more = offset + size < len(rep)
        num_out = want_num if forced_num is None else forced_num
        if mis == "b2-wrong-num" and idx2 == self.misbehave_at:
            num_out = want_num + 1
        if mis == "b2-short-with-more" and idx2 == self.misbehave_at and more and len(chunk) > 1:
            chunk = chunk[:-1]
        if mis == "b2-code-changes" and offset > 0:
            # from some later block on the exchange is answered with another response code (the resource vanished,
            # the server failed, ...) while the response still carries a Block2 option that fits the request:
            # either a short diagnostic payload as the final block, or the slice that was asked for
            arg = self.misbehave_arg
            code = arg.get("code", rc.c(4, 4))
            if arg.get("payload", "diag") == "diag":
                chunk, more = b"gone", False
            if not arg.get("etag", False):
                etag = b""
            self.code_changed += 1
            if self.changed_first is None:
                self.changed_first = (code, bytes(chunk))
        if mis == "b2-option-missing" and offset > 0:
            # a later block is answered without a Block2 option: under the code of the earlier blocks (or the other
            # success code) with the slice that was asked for or the whole representation, or as an error response
            arg = self.misbehave_arg
            if arg.get("code") is not None:
                code = arg["code"]
            payload = {"chunk": chunk, "whole": rep, "diag": b"gone"}[arg.get("payload", "chunk")]
            self.b2_opt_missing += 1
            if self.changed_first is None:
                self.changed_first = (code, bytes(payload))
            return (code, opts + ([(rc.ETAG, etag)] if etag and arg.get("etag", True) else []), payload)
        if grew and more:
            self.size_grown += 1
        self.served.append((offset, len(chunk)))
        if want_szx == 7:
            self.bert_served += 1
        if etag:
            opts.append((rc.ETAG, etag))
        opts.append((rc.BLOCK2, rc.block_bytes(num_out, more, want_szx)))
        return (code, opts, chunk)
