"""OSCORE runs under /usr/bin/python3 (has `cryptography`) with harness/shims on the path.
`vectors_ok()` runs the repository's own RFC 8613 Appendix C vectors through the CBOR shim;
a failure makes every OSCORE verdict inconclusive."""

import os
import sys
import unittest


def vectors_ok():
    import aiocoap.defaults as d

    real = d.oscore_missing_modules
    # lakers is only needed for EDHOC, which C11-C13 do not touch; ge25519 (Ed25519 -> X25519 key conversion of
    # Group OSCORE's pairwise mode) has a stand-in in harness/shims which group_env() checks
    missing = [m for m in real() if m not in ("ge25519", "lakers-python")]
    if missing:
        return False, "oscore modules missing even with shims: %r" % (missing,)
    d.oscore_missing_modules = lambda: []
    try:
        return _run()
    finally:
        d.oscore_missing_modules = real


def _run():
    from harness import boot

    tests_dir = boot.REPO
    if tests_dir not in sys.path:
        sys.path.insert(0, tests_dir)
    try:
        import tests.test_oscore as t
    except Exception as e:  # pragma: no cover
        return False, "cannot import tests.test_oscore: %r" % (e,)
    suite = unittest.defaultTestLoader.loadTestsFromTestCase(t.TestOSCOAPStatic)
    res = unittest.TestResult()
    suite.run(res)
    ok = res.testsRun >= 5 and not res.failures and not res.errors and not res.skipped
    return ok, "ran=%d failures=%d errors=%d skipped=%d %s" % (
        res.testsRun, len(res.failures), len(res.errors), len(res.skipped),
        (res.failures + res.errors)[0][1][-500:] if (res.failures or res.errors) else "")


def group_env():
    """What Group OSCORE (C11's group part) needs from the environment beyond vectors_ok().

    -> dict(ed25519=bool, x25519_conversion=bool, p256=bool, ec_eq_compat=bool, notes=[...])

    * `x25519_conversion`: the ge25519/fe25519 stand-ins make aiocoap.util.cryptography_additions convert
      an Ed25519 public key into the X25519 public key of the converted private key (an exact identity,
      checked on fixed keys including the RFC 8032 test-1 pair; the X25519 side is OpenSSL's).
    * `ec_eq_compat`: cryptography < 40 has no `__eq__` on EC public key objects, which
      SimpleGroupContext.__init__ relies on (`public_from_private(private_key) != sender_public_key`)
      for ECDSA_SHA256_P256; the upstream semantics (equal public numbers) are added to the installed
      backend class. This changes a third-party dependency's object, not the code under test."""
    import hashlib

    out = {"ed25519": False, "x25519_conversion": False, "p256": False, "ec_eq_compat": False, "notes": []}
    try:
        from cryptography.hazmat.primitives.asymmetric import ed25519, ec
        from cryptography.hazmat.primitives import serialization as s
    except Exception as e:  # pragma: no cover
        out["notes"].append("cryptography asymmetric primitives missing: %r" % (e,))
        return out

    def raw(k):
        return k.public_bytes(encoding=s.Encoding.Raw, format=s.PublicFormat.Raw)

    try:
        sk = ed25519.Ed25519PrivateKey.from_private_bytes(hashlib.sha256(b"verif-c11").digest())
        sk.public_key().verify(sk.sign(b"x"), b"x")
        out["ed25519"] = True
    except Exception as e:
        out["notes"].append("Ed25519 unsupported: %r" % (e,))
    if out["ed25519"]:
        try:
            from aiocoap.util import cryptography_additions as ca

            for i in range(4):
                sk = ed25519.Ed25519PrivateKey.from_private_bytes(hashlib.sha256(b"verif-c11-%d" % i).digest())
                if raw(ca.pk_to_curve25519(sk.public_key())) != raw(ca.sk_to_curve25519(sk).public_key()):
                    raise AssertionError("converted public key is not the public key of the converted private key")
            # RFC 8032 section 7.1 test 1: the pair is genuine, and the identity holds for it as well
            sk = ed25519.Ed25519PrivateKey.from_private_bytes(bytes.fromhex("9d61b19deffd5a60ba844af492ec2cc44449c5697b326919703bac031cae7f60"))
            if raw(sk.public_key()).hex() != "d75a980182b10ab7d54bfed3c964073a0ee172f3daa62325af021a68f707511a":
                raise AssertionError("RFC 8032 test-1 key pair not reproduced")
            if raw(ca.pk_to_curve25519(sk.public_key())) != raw(ca.sk_to_curve25519(sk).public_key()):
                raise AssertionError("RFC 8032 test-1 public key does not convert to the X25519 public key of its private key")
            out["x25519_conversion"] = True
        except Exception as e:
            out["notes"].append("Ed25519 -> X25519 conversion (ge25519 stand-in) unusable: %r" % (e,))
    try:
        k = ec.generate_private_key(ec.SECP256R1())
        a, b = k.public_key(), k.public_key()
        if not (a == b):
            cls = type(a)

            def _eq(self, other):
                if not isinstance(other, ec.EllipticCurvePublicKey):
                    return NotImplemented
                return self.public_numbers() == other.public_numbers()

            cls.__eq__ = _eq
            cls.__hash__ = lambda self: hash(self.public_numbers())
            out["ec_eq_compat"] = True
            out["notes"].append("cryptography < 40: EC public keys compare by identity; upstream __eq__ (public numbers) added to %s" % cls.__name__)
        other = ec.generate_private_key(ec.SECP256R1()).public_key()
        out["p256"] = (k.public_key() == k.public_key()) and not (k.public_key() == other)
    except Exception as e:
        out["notes"].append("P-256 unsupported: %r" % (e,))
    return out
