"""OSCORE runs under /usr/bin/python3 (has `cryptography`) with harness/shims on the path.
`vectors_ok()` runs the repository's own RFC 8613 Appendix C vectors through the CBOR shim;
a failure makes every OSCORE verdict inconclusive."""

import os
import sys
import unittest


def vectors_ok():
    import aiocoap.defaults as d

    real = d.oscore_missing_modules
    # ge25519 / lakers are only needed for Group OSCORE and EDHOC, which C11-C13 do not touch
    missing = [m for m in real() if m not in ("ge25519", "lakers-python")]
    if missing:
        return False, "oscore modules missing even with shims: %r" % (missing,)
    d.oscore_missing_modules = lambda: []
    try:
        return _run()
    finally:
        d.oscore_missing_modules = real


def _run():
    from harness import boot

    tests_dir = boot.REPO
    if tests_dir not in sys.path:
        sys.path.insert(0, tests_dir)
    try:
        import tests.test_oscore as t
    except Exception as e:  # pragma: no cover
        return False, "cannot import tests.test_oscore: %r" % (e,)
    suite = unittest.defaultTestLoader.loadTestsFromTestCase(t.TestOSCOAPStatic)
    res = unittest.TestResult()
    suite.run(res)
    ok = res.testsRun >= 5 and not res.failures and not res.errors and not res.skipped
    return ok, "ran=%d failures=%d errors=%d skipped=%d %s" % (
        res.testsRun, len(res.failures), len(res.errors), len(res.skipped),
        (res.failures + res.errors)[0][1][-500:] if (res.failures or res.errors) else "")
