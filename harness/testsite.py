"""Test resources for the full-stack checks. Handlers log entry/exit/cancellation."""

import asyncio


def make_site(loop, hlog, extra=None):
    """Site with:
    /r   configurable by request payload  b"d=<delay>;c=<code int>;p=<payload text>;nr=<no_response int>;x=raise|crash|unser|cached;tt=cls|inst"
    hlog: list receiving dicts {ev, t, remote, mid, token, code, path, payload}
    """
    import aiocoap
    import aiocoap.resource as R

    class Configurable(R.Resource):
        def __init__(self, name):
            super().__init__()
            self.name = name
            self.cached = {}

        async def _handle(self, request):
            cfg = {}
            for part in bytes(request.payload).split(b";"):
                if b"=" in part:
                    k, v = part.split(b"=", 1)
                    cfg[k.decode()] = v.decode()
            entry = {
                "ev": "enter",
                "t": loop.time(),
                "res": self.name,
                "remote": (request.remote.sockaddr[0], request.remote.sockaddr[1]),
                "mid": request.mid,
                "token": bytes(request.token).hex(),
                "code": int(request.code),
                "payload": bytes(request.payload),
            }
            hlog.append(entry)
            try:
                d = float(cfg.get("d", "0"))
                if d > 0:
                    await asyncio.sleep(d)
                if cfg.get("x") == "raise":
                    # a renderable error of the library with the requested code
                    from aiocoap import error

                    cls = {128: error.BadRequest, 132: error.NotFound, 163: error.ServiceUnavailable}[int(cfg.get("c", "128"))]
                    hlog.append(dict(entry, ev="exit", t=loop.time()))
                    raise cls(cfg.get("p", "ok"))
                if cfg.get("x") == "unser":
                    # a Message that cannot be put on the wire (text where bytes belong)
                    hlog.append(dict(entry, ev="exit", t=loop.time()))
                    return aiocoap.Message(code=aiocoap.CONTENT, payload="text, not bytes")
                if cfg.get("x") == "cached":
                    # a resource that keeps its (static) response and returns the same Message object every time
                    key = (cfg.get("c"), cfg.get("p", "ok"))
                    if key not in self.cached:
                        self.cached[key] = aiocoap.Message(payload=cfg.get("p", "ok").encode())
                        if "c" in cfg:
                            self.cached[key].code = aiocoap.numbers.codes.Code(int(cfg["c"]))
                    hlog.append(dict(entry, ev="exit", t=loop.time()))
                    return self.cached[key]
                if cfg.get("x") == "crash":
                    hlog.append(dict(entry, ev="exit", t=loop.time()))
                    raise RuntimeError("handler crashed")
                m = aiocoap.Message(payload=cfg.get("p", "ok").encode())
                if "c" in cfg:
                    m.code = aiocoap.numbers.codes.Code(int(cfg["c"]))
                if "nr" in cfg:
                    m.opt.no_response = int(cfg["nr"])
                if "tt" in cfg:
                    # transport tuning of the response: the class itself (as the library's own command line client
                    # and its deprecation texts pass it) or an instance
                    m.transport_tuning = aiocoap.Unreliable if cfg["tt"] == "cls" else aiocoap.Unreliable()
                hlog.append(dict(entry, ev="exit", t=loop.time()))
                return m
            except asyncio.CancelledError:
                hlog.append(dict(entry, ev="cancelled", t=loop.time()))
                raise

        render_get = render_post = render_put = render_delete = render_fetch = render_patch = render_ipatch = _handle

    site = R.Site()
    site.add_resource(["r"], Configurable("r"))
    site.add_resource(["r2"], Configurable("r2"))
    for path, res in (extra or {}).items():
        site.add_resource(list(path), res)
    return site
