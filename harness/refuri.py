"""Independent reference for CoAP URIs: RFC 3986 generic syntax, percent-coding,
RFC 7252 section 6.4 (URI -> options) and 6.5 (options -> URI), RFC 6874 zone ids.

Written from the RFC texts. Imports nothing from aiocoap and does not use
urllib / ipaddress for anything.

Vocabulary
    parse(text)          strict RFC 3986 `URI-reference` parser -> Parts, raises NotAUri(reason)
    decompose(text)      RFC 7252 6.4 -> Decomp, raises Reject(reason) / NotAUri(reason)
    compose(...)         RFC 7252 6.5 (with a host escaped as a reg-name so that it is lossless)
    split_hostinfo/join_hostinfo   "host[:port]" with bracketed IPv6 literals

Reject reasons (the classes named in property C16): "no-scheme", "no-host", "fragment",
"userinfo", "port-non-numeric", "non-utf8"; additionally "port-range" (> 65535),
"foreign-scheme" (not one of the CoAP schemes: the caller decides what that means).
NotAUri reasons: "bad-pct" (a '%' not followed by two hex digits), "char:<component>"
(a character the component's production does not allow), "scheme", "host", "path".

Three readings that callers rely on, with their source:

* Characters that are not URI characters. RFC 3986 section 2 builds every URI from unreserved, reserved and
  pct-encoded characters only. The C0 controls U+0000-U+001F (TAB, LF, CR among them), SPACE and DEL are in none of
  these sets (RFC 3986 2.4 / Appendix A; RFC 2396 2.4.3 listed them as "excluded"), so a text that contains one of
  them *raw*, at whatever position (leading, trailing, inside the scheme, host, port, a path or query segment or between
  the '%' and the hex digits of an escape), is not a URI: parse() raises NotAUri and a consumer has to reject the
  text. Appendix C only lets a reader strip whitespace that *surrounds* a URI embedded in running text, which is
  the embedding document's business, not the URI parser's. The same characters *percent-encoded* ("%09", "%20",
  "%00") are ordinary data octets of the component they occur in (2.1, 2.4) and survive decomposition.
  NONURI_CHARS / raw_nonuri_positions() / nonuri_as_data() spell this out. What a consumer can do at most, short of
  rejecting, is treat such a character as the data it would be when percent-encoded (nonuri_as_data), the way IRIs
  treat raw non-ASCII characters; deleting it is not a reading of the text at all (two different texts would then
  name one resource).
* Square brackets. RFC 3986 3.2.2: "This is the only place where square bracket characters are allowed in the URI
  syntax": a host is either "[" IPv6address / IPvFuture "]" (RFC 6874: optionally "%25" ZoneID before the "]") as a
  whole, or it contains no bracket at all. An authority "[::1]junk:5684", "junk[::1]" or "[::1]]" is therefore no
  authority (NotAUri "host"), and a reg-name whose *decoded* value contains brackets ("%5Bx%5D", "%5B::1%5D%2Fa")
  is a perfectly valid reg-name whose brackets are data: is_ip_literal_text() / bracketed_non_literal().
* Percent-encoded dot segments. '.' is an unreserved character, so "%2E" / "%2e" is equivalent to "." (RFC 3986
  2.3: "URIs that differ in the replacement of an unreserved character with its corresponding percent-encoded
  US-ASCII octet are equivalent"; 6.2.2.2 normalises by decoding them) and 6.2.2.3 then removes the dot segments.
  "coap://h/a/%2e%2E/b", "coap://h/a/.%2e/b" and "coap://h/a/../b" hence are one resource, "coap://h/b". RFC 7252 6.4
  read letter by letter (step 2 resolves the still-encoded text, step 8 decodes) would turn them into Uri-Path
  values "." / "..", which RFC 7252 5.10.1 forbids, so that literal reading has no permitted outcome; decompose()
  gives the normalised reading in .path, says so in .escaped_dots, and callers decide what else they tolerate.
* Zone identifiers. There are two textual forms and they are not the same text. RFC 4007 section 11.2 (what getaddrinfo,
  if_nametoindex and every host/port string outside a URI use): "<address>%<zone_id>", everything behind the first "%"
  being the zone name verbatim. RFC 6874 section 2 (URIs only): IPv6addrz = IPv6address "%25" ZoneID with
  ZoneID = 1*( unreserved / pct-encoded ): the "%25" is the percent-encoded "%" delimiter and is not part of the name,
  and the ZoneID is percent-decoded like any other URI data (names with other than unreserved characters "MUST be
  represented using percent encoding"; RFC 3986 2.3 / 6.2.2.2 make "%25eth0", "%25%65th0" and "%25eth%30" one and the
  same literal). So the URI host "[fe80::1%25lo]" is address fe80::1 in zone "lo" -- never zone "25lo", which is
  written "[fe80::1%2525lo]" --, and the destination a consumer derives from it is "fe80::1%lo" in RFC 4007 terms.
  A bare "[fe80::1%lo]" in URI text is not a URI (the "%" starts no escape); a consumer that accepts it all the same
  can only mean zone "lo" by it. parse_host() / host_text() speak the URI form, parse_scoped_address() /
  scoped_host_text() the RFC 4007 form (split_hostinfo(uri_form=False) for a whole host[:port] string).
"""

from collections import namedtuple

ALPHA = "abcdefghijklmnopqrstuvwxyzABCDEFGHIJKLMNOPQRSTUVWXYZ"
DIGIT = "0123456789"
HEXDIG = DIGIT + "abcdefABCDEF"
UNRESERVED = ALPHA + DIGIT + "-._~"
SUB_DELIMS = "!$&'()*+,;="
GEN_DELIMS = ":/?#[]@"
PCHAR = UNRESERVED + SUB_DELIMS + ":@"  # plus pct-encoded
QUERYCH = PCHAR + "/?"
REGNAME = UNRESERVED + SUB_DELIMS
USERINFO = UNRESERVED + SUB_DELIMS + ":"
SCHEMECH = ALPHA + DIGIT + "+-."

COAP_SCHEMES = ("coap", "coaps", "coap+tcp", "coaps+tcp", "coap+ws", "coaps+ws")
DEFAULT_PORT = {"coap": 5683, "coaps": 5684, "coap+tcp": 5683, "coaps+tcp": 5684, "coap+ws": 80, "coaps+ws": 443}

_LOWER = {ord(a): ord(b) for a, b in zip("ABCDEFGHIJKLMNOPQRSTUVWXYZ", "abcdefghijklmnopqrstuvwxyz")}


class NotAUri(ValueError):
    def __init__(self, reason):
        ValueError.__init__(self, reason)
        self.reason = reason


class Reject(ValueError):
    def __init__(self, reason):
        ValueError.__init__(self, reason)
        self.reason = reason


def ascii_lower(s):
    return s.translate(_LOWER)


# ---------------------------------------------------------------- percent-coding


def pct_decode(s):
    """All "%" HEXDIG HEXDIG triplets -> bytes; everything else as UTF-8. A '%' that does
    not start a triplet raises NotAUri("bad-pct")."""
    out = bytearray()
    i = 0
    n = len(s)
    while i < n:
        c = s[i]
        if c == "%":
            h = s[i + 1 : i + 3]
            if len(h) != 2 or h[0] not in HEXDIG or h[1] not in HEXDIG:
                raise NotAUri("bad-pct")
            out.append(int(h, 16))
            i += 3
        else:
            out += c.encode("utf8")
            i += 1
    return bytes(out)


def pct_decode_text(s):
    """pct_decode + strict UTF-8; raises Reject("non-utf8")."""
    b = pct_decode(s)
    try:
        return b.decode("utf8", "strict")
    except UnicodeDecodeError:
        raise Reject("non-utf8") from None


def pct_encode(text, safe):
    out = []
    for c in text:
        if c in safe:
            out.append(c)
        else:
            out.extend("%%%02X" % b for b in c.encode("utf8"))
    return "".join(out)


# C0 controls, SPACE, DEL: in none of the RFC 3986 character sets (see the module docstring)
NONURI_CHARS = "".join(chr(i) for i in range(0x21)) + "\x7f"


def raw_nonuri_positions(text):
    """Positions of raw C0 control / SPACE / DEL characters: a text with any of them is not a URI."""
    return [i for i, c in enumerate(text) if c in NONURI_CHARS]


def nonuri_as_data(text):
    """The text with every raw C0 control / SPACE / DEL replaced by its percent-encoding: what the text says if those
    characters are taken to be data (the only reading short of rejection that loses nothing)."""
    return "".join("%%%02X" % ord(c) if c in NONURI_CHARS else c for c in text)


def _check_chars(s, allowed, component, iri=False):
    i = 0
    n = len(s)
    while i < n:
        c = s[i]
        if c == "%":
            h = s[i + 1 : i + 3]
            if len(h) != 2 or h[0] not in HEXDIG or h[1] not in HEXDIG:
                raise NotAUri("bad-pct")
            i += 3
            continue
        if c not in allowed:
            if not (iri and ord(c) >= 0xA0):
                raise NotAUri("char:" + component)
        i += 1


# ---------------------------------------------------------------- IP literals


def parse_ipv4(s):
    """RFC 3986 IPv4address (dec-octet without leading zeros) -> int or None."""
    parts = s.split(".")
    if len(parts) != 4:
        return None
    v = 0
    for p in parts:
        if not (1 <= len(p) <= 3) or any(c not in DIGIT for c in p):
            return None
        if len(p) > 1 and p[0] == "0":
            return None
        o = int(p)
        if o > 255:
            return None
        v = (v << 8) | o
    return v


def lax_ipv4(s):
    """Four dotted decimal numbers <= 255 with leading zeros allowed ("01.2.3.004"): a reg-name by the RFC 3986 grammar
    that many resolvers take for an address (RFC 3986 7.4)."""
    parts = s.split(".")
    return len(parts) == 4 and all(p != "" and all(c in DIGIT for c in p) and len(p.lstrip("0")) <= 3 and int(p.lstrip("0") or "0") <= 255 for p in parts)


def parse_ipv6(s):
    """RFC 3986 IPv6address -> 128 bit int or None."""
    if s.count("::") > 1 or ":::" in s:
        return None
    if "::" in s:
        head, tail = s.split("::")
        hp = head.split(":") if head else []
        tp = tail.split(":") if tail else []
    else:
        hp = s.split(":")
        tp = None

    def groups(parts, last_may_be_v4):
        out = []
        for i, p in enumerate(parts):
            if "." in p:
                if not (last_may_be_v4 and i == len(parts) - 1):
                    return None
                v4 = parse_ipv4(p)
                if v4 is None:
                    return None
                out += [v4 >> 16, v4 & 0xFFFF]
                continue
            if not (1 <= len(p) <= 4) or any(c not in HEXDIG for c in p):
                return None
            out.append(int(p, 16))
        return out

    if tp is None:
        g = groups(hp, True)
        if g is None or len(g) != 8:
            return None
    else:
        a = groups(hp, False)
        b = groups(tp, True)
        if a is None or b is None or len(a) + len(b) > 7:
            return None
        g = a + [0] * (8 - len(a) - len(b)) + b
    v = 0
    for x in g:
        v = (v << 16) | x
    return v


def format_ipv6(v):
    """RFC 5952 style text of a 128 bit value (longest zero run compressed)."""
    g = [(v >> (16 * (7 - i))) & 0xFFFF for i in range(8)]
    best, bl, i = -1, 0, 0
    while i < 8:
        if g[i] == 0:
            j = i
            while j < 8 and g[j] == 0:
                j += 1
            if j - i > bl and j - i > 1:
                best, bl = i, j - i
            i = j
        else:
            i += 1
    if best < 0:
        return ":".join("%x" % x for x in g)
    return ":".join("%x" % x for x in g[:best]) + "::" + ":".join("%x" % x for x in g[best + bl :])


Host = namedtuple("Host", "kind text value zone")
# kind: "name" | "ipv4" | "ipv6" | "ipvfuture"; value: int for ip kinds, decoded lower-cased text for
# names (None if not UTF-8), literal text for ipvfuture; zone: decoded zone id or None


def parse_host(text, iri=False):
    if text.startswith("[") or text.endswith("]"):
        if not (text.startswith("[") and text.endswith("]")) or len(text) < 3:
            raise NotAUri("host")
        inner = text[1:-1]
        if inner[0] in "vV":
            # IPvFuture = "v" 1*HEXDIG "." 1*( unreserved / sub-delims / ":" )
            ver, dot, rest = inner[1:].partition(".")
            if not ver or any(c not in HEXDIG for c in ver) or not dot or not rest or any(c not in UNRESERVED + SUB_DELIMS + ":" for c in rest):
                raise NotAUri("host")
            return Host("ipvfuture", text, ascii_lower(inner), None)
        addr, sep, zone = inner.partition("%25")
        if "%" in addr:
            raise NotAUri("host")
        v = parse_ipv6(addr)
        if v is None:
            raise NotAUri("host")
        z = None
        if sep:
            # RFC 6874: ZoneID = 1*( unreserved / pct-encoded )
            if not zone:
                raise NotAUri("host")
            _check_chars(zone, UNRESERVED, "zone")
            try:
                z = pct_decode(zone).decode("utf8")
            except UnicodeDecodeError:
                raise Reject("non-utf8") from None
        return Host("ipv6", text, v, z)
    v4 = parse_ipv4(text)
    if v4 is not None:
        return Host("ipv4", text, v4, None)
    _check_chars(text, REGNAME, "host", iri)
    try:
        val = pct_decode(ascii_lower(text)).decode("utf8", "strict")
    except UnicodeDecodeError:
        val = None
    return Host("name", text, val, None)


def is_ip_literal_text(value):
    """Is this text, as it stands, an RFC 3986 / RFC 6874 IP-literal ("[" IPv6address [ "%25" ZoneID ] "]" or
    "[" IPvFuture "]")?"""
    if not (value.startswith("[") and value.endswith("]")):
        return False
    try:
        return parse_host(value).kind in ("ipv6", "ipvfuture")
    except (NotAUri, Reject):
        return False


def bracketed_non_literal(value):
    """A host value (the decoded value of a reg-name, i.e. a Uri-Host option value) that begins with "[" and ends with
    "]" without being an IP-literal: "[x]", "[::1]/a?b=]", "[::1]@[::2]", "[]", "[::1%eth0]" (a zone id needs "%25" in
    URI text). Its brackets are data and can only be written percent-encoded in a URI."""
    return value is not None and len(value) >= 2 and value.startswith("[") and value.endswith("]") and not is_ip_literal_text(value)


def parse_scoped_address(text):
    """RFC 4007 11.2 text of an IPv6 address, "<address>" or "<address>%<zone_id>" (no brackets; the zone is everything
    behind the first "%", verbatim) -> (128 bit int, zone | None); raises NotAUri("host")."""
    addr, sep, zone = text.partition("%")
    v = parse_ipv6(addr)
    if v is None or (sep and not zone):
        raise NotAUri("host")
    return v, (zone if sep else None)


def scoped_host_text(value, zone=None, brackets=True):
    """The RFC 4007 form (bare "%" before the verbatim zone name), in brackets as it stands in a host[:port] string."""
    t = format_ipv6(value) + ("" if zone is None else "%" + zone)
    return "[" + t + "]" if brackets else t


def zone_in_hostport_string(zone):
    """Can a bracketed host[:port] string in RFC 4007 form carry this zone name so that it can be split again? Not with a
    bracket, a "%" (the first one delimits), or characters that no host[:port] / URI text can hold raw."""
    return zone != "" and not any(c in "%[]" or c in NONURI_CHARS for c in zone)


def zone_is_plain(zone):
    """A zone name of unreserved characters only: every operating system's interface names and indices."""
    return zone != "" and all(c in UNRESERVED for c in zone)


def bare_zone_literal(host):
    """"[<IPv6address>%<zone>]" with the zone written behind a bare "%" (not URI syntax: RFC 6874 wants "%25") where
    the text can only be meant one way: the zone has unreserved characters only and does not begin with "25".
    -> (value, zone) or None."""
    if not (host.startswith("[") and host.endswith("]")):
        return None
    addr, sep, zone = host[1:-1].partition("%")
    v = parse_ipv6(addr)
    if v is None or not sep or not zone_is_plain(zone) or zone.startswith("25"):
        return None
    return v, zone


# ---------------------------------------------------------------- RFC 3986 parser

Parts = namedtuple("Parts", "scheme authority userinfo host port path query fragment")
# scheme/authority/query/fragment: None when the component (its delimiter) is absent; port: digit string
# (possibly empty) or None; host: raw text (None without authority); "nonnumeric_port" is signalled as
# NotAUri unless lax_port is set


def split_components(text):
    """RFC 3986 Appendix B, by hand: (scheme, authority, path, query, fragment) with None for absent."""
    rest = text
    fragment = None
    i = rest.find("#")
    if i >= 0:
        rest, fragment = rest[:i], rest[i + 1 :]
    query = None
    i = rest.find("?")
    if i >= 0:
        rest, query = rest[:i], rest[i + 1 :]
    scheme = None
    i = rest.find(":")
    if i > 0:
        cand = rest[:i]
        if "/" not in cand:
            # a first path segment with a colon is only possible behind a scheme or "./"
            scheme, rest = cand, rest[i + 1 :]
    elif i == 0:
        pass
    authority = None
    if rest.startswith("//"):
        j = rest.find("/", 2)
        if j < 0:
            authority, rest = rest[2:], ""
        else:
            authority, rest = rest[2:j], rest[j:]
    return scheme, authority, rest, query, fragment


def split_authority(authority):
    """-> (userinfo|None, host, port|None), splitting only; port is whatever follows the last ':' outside brackets."""
    userinfo = None
    hostport = authority
    i = authority.rfind("@")
    if i >= 0:
        userinfo, hostport = authority[:i], authority[i + 1 :]
    host, port = split_hostinfo_text(hostport)
    return userinfo, host, port


def split_hostinfo_text(hostport):
    if hostport.startswith("["):
        j = hostport.find("]")
        if j < 0:
            return hostport, None
        host, tail = hostport[: j + 1], hostport[j + 1 :]
        if tail == "":
            return host, None
        if tail.startswith(":"):
            return host, tail[1:]
        return hostport, None  # junk after the bracket: leave it to host validation
    i = hostport.rfind(":")
    if i < 0:
        return hostport, None
    return hostport[:i], hostport[i + 1 :]


def parse(text, iri=False, lax_port=False):
    """Strict RFC 3986 URI-reference. iri=True additionally lets characters >= U+00A0 stand for their
    UTF-8 percent-encoding in reg-name, path, query and fragment."""
    scheme, authority, path, query, fragment = split_components(text)
    if scheme is not None:
        if scheme[0] not in ALPHA or any(c not in SCHEMECH for c in scheme):
            raise NotAUri("scheme")
    userinfo = host = port = None
    if authority is not None:
        userinfo, host, port = split_authority(authority)
        if userinfo is not None:
            _check_chars(userinfo, USERINFO, "userinfo", iri)
        if port is not None and any(c not in DIGIT for c in port) and not lax_port:
            raise NotAUri("port")
        if host != "":
            parse_host(host, iri)
        if path and not path.startswith("/"):
            raise NotAUri("path")
    else:
        if scheme is None and ":" in path.split("/")[0]:
            raise NotAUri("path")
        if path.startswith("//"):
            raise NotAUri("path")
    _check_chars(path, PCHAR + "/", "path", iri)
    if query is not None:
        _check_chars(query, QUERYCH, "query", iri)
    if fragment is not None:
        _check_chars(fragment, QUERYCH, "fragment", iri)
    return Parts(scheme, authority, userinfo, host, port, path, query, fragment)


def remove_dot_segments(path):
    """RFC 3986 5.2.4, literally."""
    inp = path
    out = []
    while inp:
        if inp.startswith("../"):
            inp = inp[3:]
        elif inp.startswith("./"):
            inp = inp[2:]
        elif inp.startswith("/./"):
            inp = inp[2:]
        elif inp == "/.":
            inp = "/"
        elif inp.startswith("/../"):
            inp = inp[3:]
            if out:
                out.pop()
        elif inp == "/..":
            inp = "/"
            if out:
                out.pop()
        elif inp in (".", ".."):
            inp = ""
        else:
            j = inp.find("/", 1)
            if j < 0:
                seg, inp = inp, ""
            else:
                seg, inp = inp[:j], inp[j:]
            out.append(seg)
    return "".join(out)


# ---------------------------------------------------------------- RFC 7252 6.4

Decomp = namedtuple("Decomp", "scheme host uri_host uri_host_alt port effport path query has_query path_literal escaped_dots ambiguous_host path_escaped_dots_kept")
# host: Host (name value = Uri-Host); uri_host: option value or None for IP literals; uri_host_alt: the
# other order of "lower-case" and "percent-decode" (equivalent host, differs only for escaped upper-case letters);
# port: int or None as written; effport: port or the scheme default; path/query: tuples of text;
# path_literal: the segments if dot segments were NOT removed (== path when there are none);
# ambiguous_host: a reg-name with escapes that decodes to an IPv4address ("%31.2.3.4": a name by the grammar, an address
# after RFC 3986 6.2.2.2 normalisation; likewise "01%2E2.3.4" for those who take "01.2.3.4" for an address, RFC 3986 7.4)
# or to a complete IP-literal ("%5B%3A%3A1%5D": a name by the grammar, but its
# Uri-Host value "[::1]" is what RFC 7252 6.5 step 3 composes as the IP-literal [::1]); callers should not judge such text;
# escaped_dots: a segment is written %2E / %2E%2E / .%2E ...: .path is the normalised reading (RFC 3986 2.3, 6.2.2.2,
# 6.2.2.3: such a segment *is* a dot segment and is removed); .path_literal keeps them as "." / ".." values, which
# is what RFC 7252 6.4 read letter by letter gives and 5.10.1 forbids (see the module docstring);
# path_escaped_dots_kept: literal dot segments removed, escaped ones kept as "." / ".." values (None if not UTF-8)


def _segments(path):
    if path in ("", "/"):
        return ()
    return tuple(pct_decode_text(s) for s in path.split("/")[1:])


def decode_dot_escapes(path):
    """RFC 3986 6.2.2.2 restricted to what matters for 6.2.2.3: every segment that consists of one or two dots of
    which any are written "%2E" / "%2e" is replaced by the literal dot segment."""
    segs = path.split("/")
    for i, raw in enumerate(segs):
        if "%" in raw and len(raw) <= 6:
            try:
                dec = pct_decode(raw)
            except NotAUri:
                continue
            if dec in (b".", b".."):
                segs[i] = dec.decode("ascii")
    return "/".join(segs)


def decompose(text, iri=False):
    """RFC 7252 6.4 (plus the 6.1/6.2 grammar: host required, no userinfo)."""
    try:
        p = parse(text, iri=iri, lax_port=True)
    except NotAUri:
        raise
    if p.scheme is None:
        raise Reject("no-scheme")
    scheme = ascii_lower(p.scheme)
    if scheme not in COAP_SCHEMES:
        raise Reject("foreign-scheme")
    if p.fragment is not None:
        raise Reject("fragment")
    if p.authority is None or p.host == "":
        raise Reject("no-host")
    if p.userinfo is not None:
        raise Reject("userinfo")
    if p.port is not None and any(c not in DIGIT for c in p.port):
        _check_chars(p.port, REGNAME + ":", "port", iri)  # characters no URI can contain: not a URI at all
        raise Reject("port-non-numeric")
    host = parse_host(p.host, iri)
    if host.kind == "name":
        if host.value is None:
            raise Reject("non-utf8")
        uri_host = host.value
        uri_host_alt = ascii_lower(pct_decode(p.host).decode("utf8"))
    else:
        uri_host = uri_host_alt = None
    port = int(p.port) if p.port else None
    if port is not None and port > 65535:
        raise Reject("port-range")
    path = _segments(remove_dot_segments(decode_dot_escapes(p.path)))
    try:
        path_literal = _segments(p.path)
    except Reject:
        path_literal = None  # a segment that dot-segment removal drops is not UTF-8: the URI itself is fine
    query = ()
    if p.query is not None:
        query = tuple(pct_decode_text(a) for a in p.query.split("&"))
    escaped_dots = any("%" in raw and pct_decode(raw) in (b".", b"..") for raw in p.path.split("/")[1:])
    try:
        path_kept = _segments(remove_dot_segments(p.path))
    except Reject:
        path_kept = None
    ambiguous_host = host.kind == "name" and "%" in p.host and (lax_ipv4(uri_host) or is_ip_literal_text(uri_host))
    return Decomp(scheme, host, uri_host, uri_host_alt, port, port if port is not None else DEFAULT_PORT[scheme], path, query, p.query is not None, path_literal, escaped_dots, ambiguous_host, path_kept)


def classify(text):
    """("ok", Decomp) | ("reject", reason) | ("notauri", reason) under the strict reading."""
    try:
        return ("ok", decompose(text))
    except Reject as e:
        return ("reject", e.reason)
    except NotAUri as e:
        return ("notauri", e.reason)


# ---------------------------------------------------------------- RFC 7252 6.5


def host_text(kind, value, zone=None):
    if kind == "ipv4":
        return ".".join(str((value >> s) & 255) for s in (24, 16, 8, 0))
    if kind == "ipv6":
        z = "" if zone is None else "%25" + pct_encode(zone, UNRESERVED)
        return "[" + format_ipv6(value) + z + "]"
    if kind == "ipvfuture":
        return "[" + value + "]"
    return pct_encode(value, REGNAME)


def compose(scheme, host, port, path, query, omit_default_port=True):
    """host: already in URI form (see host_text). path/query: sequences of text."""
    out = [scheme, "://", host]
    if port is not None and not (omit_default_port and port == DEFAULT_PORT.get(scheme)):
        out.append(":%d" % port)
    res = "".join("/" + pct_encode(s, PCHAR) for s in path) or "/"
    out.append(res)
    qsafe = QUERYCH.replace("&", "")
    for i, a in enumerate(query):
        out.append(("?" if i == 0 else "&") + pct_encode(a, qsafe))
    return "".join(out)


def normalise(text):
    d = decompose(text)
    return compose(d.scheme, host_text(d.host.kind, d.host.value, d.host.zone), d.effport, d.path, d.query)


def resource_key(d):
    """What identifies the resource: equal keys <=> equivalent URIs."""
    value = ascii_lower(d.host.value) if d.host.kind == "name" else d.host.value  # RFC 3986 3.2.2: host is case-insensitive
    return (d.scheme, d.host.kind, value, d.host.zone, d.effport, d.path, d.query if d.query != ("",) else ())


def normal_form_defects(text):
    """Syntactic normal-form aspects of RFC 3986 6.2.2 / RFC 7252 6.3 that a composed URI should satisfy:
    lower-case scheme and reg-name, upper-case hex in escapes, no escaped unreserved characters, non-empty path."""
    out = []
    scheme, authority, path, query, fragment = split_components(text)
    if scheme is not None and scheme != ascii_lower(scheme):
        out.append("scheme-case")
    if authority is not None:
        _, host, _ = split_authority(authority)
        if not host.startswith("["):
            bare = []
            i = 0
            while i < len(host):
                if host[i] == "%":
                    i += 3
                else:
                    bare.append(host[i])
                    i += 1
            if "".join(bare) != ascii_lower("".join(bare)):
                out.append("host-case")
        if path == "":
            out.append("empty-path")
    i = 0
    body = text
    while True:
        i = body.find("%", i)
        if i < 0:
            break
        h = body[i + 1 : i + 3]
        if len(h) == 2 and h[0] in HEXDIG and h[1] in HEXDIG:
            if h != h.upper():
                out.append("escape-hex-case")
            if chr(int(h, 16)) in UNRESERVED:
                out.append("escaped-unreserved")
        i += 1
    return sorted(set(out))


# ---------------------------------------------------------------- host:port strings


def split_hostinfo(hostinfo, uri_form=True):
    """"host[:port]" -> (Host-ish tuple (kind, value, zone), port int|None).
    uri_form: a zone id is introduced by "%25" (authority text); otherwise by a bare "%"."""
    host, port = split_hostinfo_text(hostinfo)
    if port is not None and port != "" and any(c not in DIGIT for c in port):
        raise NotAUri("port")
    p = int(port) if port else None
    if host.startswith("["):
        if not host.endswith("]"):
            raise NotAUri("host")
        inner = host[1:-1]
        if uri_form:
            h = parse_host(host)
            return (h.kind, h.value, h.zone), p
        addr, sep, zone = inner.partition("%")
        v = parse_ipv6(addr)
        if v is None:
            raise NotAUri("host")
        return ("ipv6", v, zone if sep else None), p
    h = parse_host(host, iri=True)
    return (h.kind, h.value, h.zone), p


def hostinfo_wellformed(hostinfo):
    """Is the string host[:port] with the host a name, an IPv4 address or one bracketed IPv6 literal (zone id written
    either "%25zone" as in URIs or "%zone" as in socket addresses) and nothing else around it?"""
    for uri_form in (True, False):
        try:
            split_hostinfo(hostinfo, uri_form=uri_form)
            return True
        except (NotAUri, Reject):
            pass
    return False


def join_hostinfo(host, port):
    """host: a name, IPv4 text, or *unbracketed* IPv6 text (with optional zone)."""
    if ":" in host:
        host = "[" + host + "]"
    return host if port is None else "%s:%d" % (host, port)


# ---------------------------------------------------------------- self test


def selftest():
    # RFC 3986 5.2.4 / 5.4 dot segments
    assert remove_dot_segments("/a/b/c/./../../g") == "/a/g"
    assert remove_dot_segments("mid/content=5/../6") == "mid/6"
    assert remove_dot_segments("/../a") == "/a" and remove_dot_segments("/a/..") == "/" and remove_dot_segments("/a/.") == "/a/"
    # RFC 3986 section 1.1.2 / 3 examples parse
    for u in ["ftp://ftp.is.co.za/rfc/rfc1808.txt", "http://www.ietf.org/rfc/rfc2396.txt", "ldap://[2001:db8::7]/c=GB?objectClass?one", "mailto:John.Doe@example.com", "news:comp.infosystems.www.servers.unix", "tel:+1-816-555-1212", "telnet://192.0.2.16:80/", "urn:oasis:names:specification:docbook:dtd:xml:4.1.2", "foo://example.com:8042/over/there?name=ferret#nose", "//g", "?y", "g;x?y#s", "", "../../g"]:
        parse(u)
    p = parse("foo://example.com:8042/over/there?name=ferret#nose")
    assert p == Parts("foo", "example.com:8042", None, "example.com", "8042", "/over/there", "name=ferret", "nose")
    for bad in ["1a://h/", "coap://h/%zz", "coap://h/a b", "coap://h/a[b", "coap://[::1/", "coap://[::1]x/", "coap://h:1:2/", "coap://[1.2.3.4]/", "co ap://h", "coap://h/\u00e4"]:
        try:
            parse(bad)
        except NotAUri:
            pass
        else:
            raise AssertionError("accepted " + bad)
    parse("coap://h/\u00e4", iri=True)
    # IPv6
    assert parse_ipv6("::") == 0 and parse_ipv6("::1") == 1 and parse_ipv6("1::") == 1 << 112
    assert parse_ipv6("2001:db8::2:1") == 0x20010DB8000000000000000000020001
    assert parse_ipv6("::ffff:1.2.3.4") == 0xFFFF01020304 and parse_ipv6("1:2:3:4:5:6:1.2.3.4") == 0x00010002000300040005000601020304
    assert parse_ipv6("1:2:3:4:5:6:7:8") is not None and parse_ipv6("1::3:4:5:6:7:8") is not None
    for bad in ["", ":", ":::", "1::2::3", "1:2:3:4:5:6:7", "1:2:3:4:5:6:7:8:9", "12345::", "g::", "1:2:3:4:5:6:7::8", "::1.2.3", "::1.2.3.256", "1.2.3.4::", "::01.2.3.4"]:
        assert parse_ipv6(bad) is None, bad
    assert format_ipv6(parse_ipv6("2001:DB8:0:0:0:0:2:1")) == "2001:db8::2:1" and format_ipv6(0) == "::" and format_ipv6(1 << 112) == "1::"
    assert format_ipv6(parse_ipv6("1:0:2:3:4:5:6:7")) == "1:0:2:3:4:5:6:7"
    assert parse_ipv4("198.51.100.1") == 0xC6336401 and parse_ipv4("01.2.3.4") is None and parse_ipv4("256.1.1.1") is None and parse_ipv4("1.2.3") is None
    # RFC 7252 6.3: the three equivalent URIs
    a = decompose("coap://example.com:5683/~sensors/temp.xml")
    b = decompose("coap://EXAMPLE.com/%7Esensors/temp.xml")
    c = decompose("coap://EXAMPLE.com:/%7esensors/temp.xml")
    assert resource_key(a) == resource_key(b) == resource_key(c)
    assert a.uri_host == "example.com" and a.path == ("~sensors", "temp.xml") and a.query == () and a.effport == 5683
    assert normalise("coap://EXAMPLE.com:/%7esensors/temp.xml") == "coap://example.com/~sensors/temp.xml"
    assert resource_key(decompose("coap://h%41/")) == resource_key(decompose("coap://Ha/")) != resource_key(decompose("coap://hb/"))
    # RFC 7252 Appendix B examples (6.4/6.5)
    d = decompose("coap://[2001:db8::2:1]/")
    assert d.uri_host is None and d.host.kind == "ipv6" and d.host.value == 0x20010DB8000000000000000000020001 and d.effport == 5683 and d.path == () and d.query == ()
    assert compose("coap", host_text("ipv6", d.host.value), 5683, (), ()) == "coap://[2001:db8::2:1]/"
    d = decompose("coap://example.net/")
    assert d.uri_host == "example.net" and d.path == ()
    assert compose("coap", "example.net", 5683, (), ()) == "coap://example.net/"
    d = decompose("coap://example.net/.well-known/core")
    assert d.path == (".well-known", "core")
    assert compose("coap", "example.net", None, (".well-known", "core"), ()) == "coap://example.net/.well-known/core"
    kon = "\u3053\u3093\u306b\u3061\u306f"
    u = "coap://xn--18j4d.example/%E3%81%93%E3%82%93%E3%81%AB%E3%81%A1%E3%81%AF"
    d = decompose(u)
    assert d.uri_host == "xn--18j4d.example" and d.path == (kon,)
    assert compose("coap", "xn--18j4d.example", None, (kon,), ()) == u
    u = "coap://198.51.100.1:61616//%2F//?%2F%2F&?%26"
    d = decompose(u)
    assert d.uri_host is None and d.host.kind == "ipv4" and d.port == 61616 and d.path == ("", "/", "", "") and d.query == ("//", "?&")
    u2 = compose("coap", host_text("ipv4", d.host.value), 61616, d.path, d.query)
    assert u2 == "coap://198.51.100.1:61616//%2F//?//&?%26" and resource_key(decompose(u2)) == resource_key(d)
    # 6.4 details
    d = decompose("CoAPs+TcP://H%41b.EXAMPLE:05684/a%2Fb/?x=%26&&y")
    assert d.scheme == "coaps+tcp" and d.uri_host == "hAb.example" and d.uri_host_alt == "hab.example" and d.port == 5684 and d.path == ("a/b", "") and d.query == ("x=&", "", "y")
    assert decompose("coap://h").path == () and decompose("coap://h/").path == () and decompose("coap://h//").path == ("", "")
    assert decompose("coap://h/?").query == ("",) and decompose("coap://h/?").has_query and not decompose("coap://h/").has_query
    assert decompose("coap://h/a/%2E%2e/b").escaped_dots and not decompose("coap://h/a/../b%2E").escaped_dots
    # RFC 3986 2.3 / 6.2.2.2 / 6.2.2.3: an escaped dot segment is a dot segment
    for u in ["coap://h/a/%2e%2E/b", "coap://h/a/.%2e/b", "coap://h/a/%2E./b", "coap://h/a/../b", "coap://h/%2e/b", "coap://h/./a/%2e%2e/b/%2E"]:
        d = decompose(u)
        assert d.path == (("b",) if not u.endswith("%2E") else ("b", "")), (u, d.path)
        assert resource_key(d)[:5] == resource_key(decompose("coap://h/b"))[:5]
    assert decompose("coap://h/a/%2e%2E/b").path_literal == ("a", "..", "b") and decompose("coap://h/a/b/%2e%2E").path == ("a", "")
    assert decompose("coap://h/%2e%2e%2e/%2e%2ea/%252e").path == ("...", "..a", "%2e") and not decompose("coap://h/%2e%2e%2e/%2e%2ea/%252e").escaped_dots
    assert decode_dot_escapes("/%2E/x%2E/%2e%2E/%2") == "/./x%2E/../%2"
    assert decompose("coap://h/x/../a/%2e%2E/b").path_escaped_dots_kept == ("a", "..", "b")
    # raw controls / space are not URI characters anywhere; percent-encoded they are data
    for bad in ["coap://h/a\tb", "coap://h/a b", " coap://h/", "\x00coap://h/", "coap://h/ ", "co\tap://h/", "coap://h\n/", "coap://h:56\n83/", "coap://h/%4\r1", "coap://h/?a\x0bb", "coap://h/\x7f", "coap://[::\t1]/"]:
        assert classify(bad)[0] == "notauri", bad
        assert raw_nonuri_positions(bad), bad
    assert decompose("coap://h/a%09b%20?%0A%00").path == ("a\tb ",) and decompose("coap://h/a%09b%20?%0A%00").query == ("\n\x00",)
    assert nonuri_as_data("coap://h/a\tb c\x7f") == "coap://h/a%09b%20c%7F" and decompose(nonuri_as_data("coap://h/a\tb c")).path == ("a\tb c",)
    assert raw_nonuri_positions("coap://h/a%09") == [] and raw_nonuri_positions(" a\n") == [0, 2]
    # RFC 3986 3.2.2: brackets delimit an IP-literal that is the whole host, and occur nowhere else
    for bad in ["coap://[::1]junk/p", "coap://[::1]junk:5684/p", "coap://junk[::1]:5684/p", "coap://[::1]]/p", "coap://[[::1]/p", "coap://[fe80::1%25eth0]x:1/", "coap://a[::1]b/", "coap://[::1][::2]/", "coap://[::1]:1[/", "coap://h]/", "coap://[x]/", "coap://[]/", "coap://[::1%eth0]/"]:
        assert classify(bad)[0] == "notauri" and classify(bad)[1] in ("host", "char:host", "char:port"), (bad, classify(bad))
    d = decompose("coap://%5B%3A%3A1%5D%2Fa%3Fb=%5D/path")
    assert d.uri_host == "[::1]/a?b=]" and d.path == ("path",) and not d.ambiguous_host and bracketed_non_literal(d.uri_host)
    assert compose("coap", host_text("name", d.uri_host), None, d.path, ()) == "coap://%5B%3A%3A1%5D%2Fa%3Fb=%5D/path"
    assert decompose("coap://%5Bx%5D/").uri_host == "[x]" and bracketed_non_literal("[x]") and bracketed_non_literal("[]") and bracketed_non_literal("[::1]@[::2]") and bracketed_non_literal("[fe80::1%eth0]")
    assert not bracketed_non_literal("[::1]") and not bracketed_non_literal("[fe80::1%25eth0]") and not bracketed_non_literal("[v1.x]") and not bracketed_non_literal("[x") and not bracketed_non_literal("x]") and not bracketed_non_literal("[")
    assert decompose("coap://%5B%3A%3A1%5D/").ambiguous_host and decompose("coap://%5Bfe80%3A%3A1%2525eth0%5D/").ambiguous_host and not decompose("coap://%5Bfe80%3A%3A1%25eth0%5D/").ambiguous_host
    assert hostinfo_wellformed("[::1]:5684") and hostinfo_wellformed("[fe80::1%eth0]:1") and hostinfo_wellformed("[fe80::1%25eth0]") and hostinfo_wellformed("h:1") and hostinfo_wellformed("1.2.3.4")
    for bad in ["[::1]junk:5684", "junk[::1]:5684", "[::1]]", "[fe80::1%eth0]x:1", "[[::1]]", "[::1]:1:2", "a@[::1]", "[::1", "::1]"]:
        assert not hostinfo_wellformed(bad), bad
    assert classify("coap://h:1 2/")[0] == "notauri" and classify("coap://h:1a/") == ("reject", "port-non-numeric")
    assert decompose("coap://01%2E2.3.4/").ambiguous_host and not decompose("coap://01.2.3.4/").ambiguous_host and not decompose("coap://256%2E2.3.4/").ambiguous_host
    assert lax_ipv4("01.2.3.004") and lax_ipv4("1.2.3.4") and not lax_ipv4("1.2.3") and not lax_ipv4("1..2.3") and not lax_ipv4("1.2.3.256") and not lax_ipv4("1.2.3.4a")
    assert decompose("coap://%31.2.3.4/").ambiguous_host and not decompose("coap://1.2.3.4/").ambiguous_host and not decompose("coap://h%31/").ambiguous_host
    assert decompose("coap://h/a%FF/../b").path == ("b",) and decompose("coap://h/a%FF/../b").path_literal is None
    assert decompose("coap://h/a/../b/./c").path == ("b", "c") and decompose("coap://h/a/../b/./c").path_literal == ("a", "..", "b", ".", "c")
    d = decompose("coap://[FE80::0001%25eth0]:1/")
    assert d.host == Host("ipv6", "[FE80::0001%25eth0]", 0xFE80 << 112 | 1, "eth0") and d.uri_host is None
    assert decompose("coap://[v1.fe]/").host.kind == "ipvfuture"
    # RFC 6874: "%25" is the delimiter, the ZoneID is percent-decoded; RFC 4007 11.2: bare "%", verbatim
    assert decompose("coap://[fe80::1%25lo]/x").host.zone == "lo" and decompose("coap://[fe80::1%2525lo]/x").host.zone == "25lo"
    assert decompose("coap://[fe80::1%25eth0]/").host == decompose("coap://[fe80::1%25%65th0]/").host._replace(text="[fe80::1%25eth0]") == decompose("coap://[fe80::1%25eth%30]/").host._replace(text="[fe80::1%25eth0]")
    assert decompose("coap://[fe80::1%25eth%2D0]/").host.zone == "eth-0" and decompose("coap://[fe80::1%25a%2Fb%25%C3%A4]/").host.zone == "a/b%\u00e4"
    assert classify("coap://[fe80::1%25]/")[0] == "notauri" and classify("coap://[fe80::1%lo]/")[0] == "notauri" and classify("coap://[fe80::1%25a%2]/")[0] == "notauri" and classify("coap://[fe80::1%25a%FF]/") == ("reject", "non-utf8")
    assert host_text("ipv6", 0xFE80 << 112 | 1, "25lo") == "[fe80::1%2525lo]" and host_text("ipv6", 1, "a/b") == "[::1%25a%2Fb]"
    assert parse_scoped_address("fe80::1%lo") == (0xFE80 << 112 | 1, "lo") and parse_scoped_address("fe80::1%25lo") == (0xFE80 << 112 | 1, "25lo") and parse_scoped_address("::1") == (1, None)
    assert scoped_host_text(1, "eth0") == "[::1%eth0]" and scoped_host_text(1) == "[::1]" and scoped_host_text(1, "25lo", brackets=False) == "::1%25lo"
    assert split_hostinfo("[fe80::1%25lo]:7", uri_form=False) == (("ipv6", 0xFE80 << 112 | 1, "25lo"), 7) and split_hostinfo("[fe80::1%25lo]:7") == (("ipv6", 0xFE80 << 112 | 1, "lo"), 7)
    assert zone_in_hostport_string("eth-0") and zone_in_hostport_string("\u00e4") and not zone_in_hostport_string("a%b") and not zone_in_hostport_string("a]") and not zone_in_hostport_string("a b") and not zone_in_hostport_string("")
    assert zone_is_plain("eth0.1_x~-") and not zone_is_plain("a/b") and not zone_is_plain("")
    assert bare_zone_literal("[fe80::1%lo]") == (0xFE80 << 112 | 1, "lo") and bare_zone_literal("[fe80::1%25lo]") is None and bare_zone_literal("[fe80::1%a%41]") is None and bare_zone_literal("[x%lo]") is None and bare_zone_literal("[::1]") is None
    for bad in ["fe80::1%", "x%lo", "[::1%lo]", ""]:
        try:
            parse_scoped_address(bad)
        except NotAUri:
            pass
        else:
            raise AssertionError("accepted " + bad)
    assert decompose("coap://h%2Fx/").uri_host == "h/x"
    assert compose("coap", host_text("name", "h/x"), None, (), ()) == "coap://h%2Fx/"
    for u, why in [("/hello", "no-scheme"), ("//h/p", "no-scheme"), ("", "no-scheme"), ("coap:///p", "no-host"), ("coap:p", "no-host"), ("coap://:5683/", "no-host"), ("coap:", "no-host"), ("coap://h/#f", "fragment"), ("coap://h/#", "fragment"), ("coap://u@h/", "userinfo"), ("coap://@h/", "userinfo"), ("coap://u:p@h/", "userinfo"), ("coap://h:abc/", "port-non-numeric"), ("coap://[::1]:abc/", "port-non-numeric"), ("coap://h:65536/", "port-range"), ("coap://h/%ff", "non-utf8"), ("coap://h/?%C3%28", "non-utf8"), ("coap://h%ff/", "non-utf8"), ("http://h/", "foreign-scheme"), ("coap://h/%ED%A0%80", "non-utf8")]:
        try:
            decompose(u)
        except Reject as e:
            assert e.reason == why, (u, e.reason, why)
        else:
            raise AssertionError("accepted " + u)
    assert normal_form_defects("coap://h/%7e") == ["escape-hex-case", "escaped-unreserved"] and normal_form_defects("coap://h.x:1/a%2Fb?c") == []
    assert normal_form_defects("CoAP://H") == ["empty-path", "host-case", "scheme-case"]
    # host:port
    assert split_hostinfo("foo") == (("name", "foo", None), None) and split_hostinfo("foo:5683") == (("name", "foo", None), 5683)
    assert split_hostinfo("[::1%eth0]:56830", uri_form=False) == (("ipv6", 1, "eth0"), 56830)
    assert split_hostinfo("[::1%25eth0]:56830") == (("ipv6", 1, "eth0"), 56830)
    assert split_hostinfo("1.2.3.4:") == (("ipv4", 0x01020304, None), None)
    assert join_hostinfo("2001:db8::1", 1234) == "[2001:db8::1]:1234" and join_hostinfo("example.com", None) == "example.com"
    return True


if __name__ == "__main__":
    print(selftest())
