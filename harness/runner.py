"""Runner: ./vcheck <ID> --tier quick|thorough [--replay file]

Fans a check's shards out to worker subprocesses (fresh interpreter each, importing
/repo's current working tree), merges their reports, classifies violations
against known_findings.json, writes evidence/<ID>.json and sets the exit code:
0 held on what was observed, 1 violation, 2 inconclusive."""

import argparse
import concurrent.futures
import importlib
import json
import os
import shutil
import subprocess
import sys
import tempfile
import time

VERIF = os.path.dirname(os.path.dirname(os.path.abspath(__file__)))
REPO = os.environ.get("VERIF_REPO", "/repo")
INTERP = {
    "venv": "/venv/bin/python",
    "system": "/usr/bin/python3",
}


def ensure_deps():
    deps = os.path.join(VERIF, ".deps")
    if os.path.isdir(os.path.join(deps, "icontract")):
        return
    os.makedirs(deps, exist_ok=True)
    subprocess.run(
        ["/venv/bin/pip", "install", "-q", "--no-index", "--find-links", "/opt/veriftools/wheels", "--target", deps, "icontract"],
        stdout=subprocess.DEVNULL,
        stderr=subprocess.DEVNULL,
        env={**os.environ, "PIP_NO_INDEX": "1"},
    )


def load_known():
    p = os.path.join(VERIF, "known_findings.json")
    try:
        with open(p) as f:
            return json.load(f)
    except FileNotFoundError:
        return {"findings": [], "fixed": []}


def scratch_dir():
    base = "/dev/shm" if os.path.isdir("/dev/shm") and os.access("/dev/shm", os.W_OK) else tempfile.gettempdir()
    return tempfile.mkdtemp(prefix="verif-", dir=base)


def run_worker(mod, prop, shard, idx, tmp, timeout, only=None):
    shardfile = os.path.join(tmp, "shard%d.json" % idx)
    outfile = os.path.join(tmp, "out%d.json" % idx)
    with open(shardfile, "w") as f:
        json.dump(shard, f)
    cmd = [INTERP[getattr(mod, "INTERPRETER", "venv")], "-m", "harness.worker", prop, shardfile, outfile]
    if only is not None:
        onlyfile = os.path.join(tmp, "only%d.json" % idx)
        with open(onlyfile, "w") as f:
            json.dump(only, f)
        cmd.append(onlyfile)
    env = dict(os.environ)
    env["PYTHONPATH"] = VERIF
    env["PYTHONHASHSEED"] = "0"
    env["AIOCOAP_VERIF"] = "1"
    env["VERIF_WORKER_WALL"] = str(timeout * 0.9)
    env.pop("PYTHONSTARTUP", None)
    t0 = time.time()
    try:
        p = subprocess.run(cmd, cwd=VERIF, env=env, stdout=subprocess.PIPE, stderr=subprocess.PIPE, timeout=timeout)
        err = p.stderr.decode("utf8", "replace")[-3000:]
        rc = p.returncode
    except subprocess.TimeoutExpired as e:
        err = "worker wall-clock watchdog (%ds) fired: %s" % (timeout, (e.stderr or b"").decode("utf8", "replace")[-1500:])
        rc = None
    try:
        with open(outfile) as f:
            out = json.load(f)
    except Exception:
        out = {
            "evaluations": 0, "sigs": [], "sigs_overflow": 0, "monitors": {}, "counters": {}, "violations": {}, "samples": [], "sets": {},
            "inconclusive": ["worker for shard %r produced no report (rc=%r): %s" % (shard.get("name"), rc, err)],
            "status": "dead",
        }
    out["wall"] = time.time() - t0
    out["stderr_tail"] = err[-600:] if rc not in (0,) else ""
    return out


def merge(outs):
    m = {"evaluations": 0, "sigs": set(), "sigs_overflow": 0, "monitors": {}, "counters": {}, "violations": {}, "samples": [], "inconclusive": [], "sets": {}}
    for o in outs:
        m["evaluations"] += o["evaluations"]
        m["sigs"].update(o["sigs"])
        m["sigs_overflow"] += o.get("sigs_overflow", 0)
        for k, v in o["monitors"].items():
            m["monitors"][k] = m["monitors"].get(k, 0) + v
        for k, v in o["counters"].items():
            m["counters"][k] = m["counters"].get(k, 0) + v
        for k, v in o["violations"].items():
            t = m["violations"].setdefault(k, {"count": 0, "what": v["what"], "witnesses": []})
            t["count"] += v["count"]
            for w in v["witnesses"]:
                if len(t["witnesses"]) < 3:
                    t["witnesses"].append(w)
        for s in o["samples"]:
            if len(m["samples"]) < 4:
                m["samples"].append(s)
        for r in o["inconclusive"]:
            if r not in m["inconclusive"]:
                m["inconclusive"].append(r)
        for k, v in o.get("sets", {}).items():
            m["sets"].setdefault(k, set()).update(json.dumps(x, sort_keys=True) for x in v)
        for fn, lines in (o.get("linecov") or {}).items():
            m.setdefault("linecov", {}).setdefault(fn, set()).update(lines)
    return m


def anchored_reach(prop, hits):
    """{anchored file: {reached, of}}: executable lines inside functions of the files the property is anchored in
    that this run executed (measured in the workers by sys.monitoring)"""
    from harness import linecov

    out = {}
    try:
        with open(os.path.join(VERIF, "properties.jsonl")) as f:
            props = {json.loads(l)["id"]: json.loads(l) for l in f if l.strip()}
        for rel in props[prop]["anchors"]["files"]:
            path = os.path.join(REPO, rel)
            if not os.path.isfile(path):
                continue
            ex = linecov.executable_lines(path)
            got = hits.get(rel, set())
            out[rel] = {"reached": sum(1 for l in ex if l in got), "of": len(ex)}
    except Exception as e:  # diagnostic only
        return {"error": repr(e)}
    return out


def main(argv=None):
    ap = argparse.ArgumentParser()
    ap.add_argument("prop")
    ap.add_argument("--tier", default=os.environ.get("VERIF_TIER") or "quick", choices=["quick", "thorough"])
    ap.add_argument("--replay")
    ap.add_argument("--jobs", type=int, default=int(os.environ.get("VERIF_JOBS", "16")))
    ap.add_argument("--no-evidence", action="store_true")
    args = ap.parse_args(argv)
    prop = args.prop.upper()
    seed = int(os.environ.get("VERIF_SEED", "0") or 0)
    sys.path.insert(0, VERIF)
    os.chdir(VERIF)
    ensure_deps()
    mod = importlib.import_module("checks." + prop.lower())
    t0 = time.time()
    tmp = scratch_dir()
    try:
        if args.replay:
            with open(args.replay) as f:
                w = json.load(f)
            out = run_worker(mod, prop, w["shard"], 0, tmp, timeout=1800, only=w["case"])
            outs = [out]
            tier = w.get("tier", "quick")
        else:
            tier = args.tier
            shards = mod.plan(tier, seed)
            timeout = getattr(mod, "WORKER_TIMEOUT", {"quick": 600, "thorough": 7200})[tier]
            with concurrent.futures.ThreadPoolExecutor(max_workers=args.jobs) as ex:
                futs = [ex.submit(run_worker, mod, prop, sh, i, tmp, timeout) for i, sh in enumerate(shards)]
                outs = [f.result() for f in futs]
    finally:
        shutil.rmtree(tmp, ignore_errors=True)
    m = merge(outs)
    wall = time.time() - t0

    known = load_known()
    known_keys = {e["key"]: e for e in known.get("findings", []) if e["property"] == prop}
    fixed_keys = {e["key"]: e for e in known.get("fixed", []) if e["property"] == prop}
    replay_dir = os.path.join(VERIF, "out", "replay", prop)
    os.makedirs(replay_dir, exist_ok=True)
    lines = []
    new_violation = False
    known_seen = []
    for key, v in sorted(m["violations"].items()):
        path = os.path.join(replay_dir, "%s.json" % key.replace("/", "_"))
        w = dict(v["witnesses"][0]) if v["witnesses"] else {"shard": None, "case": None}
        w.update({"property": prop, "key": key, "count": v["count"], "tier": tier, "seed": seed, "more_witnesses": v["witnesses"][1:]})
        with open(path, "w") as f:
            json.dump(w, f, indent=1, default=repr)
        if key in known_keys:
            known_seen.append(key)
            lines.append("KNOWN-FINDING: property=%s %s [%s; %d witness(es) this run, replay=%s]" % (prop, known_keys[key]["what"], key, v["count"], path))
        else:
            new_violation = True
            extra = " (regression of a fixed finding)" if key in fixed_keys else ""
            lines.append("VIOLATION property=%s replay=%s" % (prop, path))
            lines.append("  key=%s count=%d%s: %s" % (key, v["count"], extra, v["what"]))

    # deciding monitors must have been reached
    required = getattr(mod, "REQUIRED_MONITORS", {})
    req = required.get(tier, {}) if ("quick" in required or "thorough" in required) else required
    unreached = [name for name, mn in (req or {}).items() if m["monitors"].get(name, 0) < mn]
    inconclusive = list(m["inconclusive"])
    if args.replay:
        unreached = []
    for name in unreached:
        inconclusive.append("deciding monitor %r evaluated %d times (< %d required)" % (name, m["monitors"].get(name, 0), req[name]))
    for key in known_keys:
        if key not in known_seen and not args.replay:
            lines.append("NOTE: listed finding %s/%s was not re-observed in this run" % (prop, key))

    distinct = len(m["sigs"])
    if not args.replay and not args.no_evidence:
        samples = m["samples"] or [{"note": "no sample recorded"}]
        ev = {
            "property_id": prop,
            "tier": tier,
            "seed": seed,
            "level": mod.LEVEL,
            "coverage": {
                "evaluations": m["evaluations"],
                "distinct_nontrivial": distinct,
                "rule": mod.RULE + (" (distinct count is a lower bound: %d further signatures beyond the per-worker cap were not stored)" % m["sigs_overflow"] if m["sigs_overflow"] else ""),
                "samples": samples,
                "monitor_evaluations": m["monitors"],
                "observed": m["counters"],
                "observed_sets": {k: len(v) for k, v in m["sets"].items()},
                "known_findings_reobserved": {k: m["violations"][k]["count"] for k in known_seen},
                "unlisted_violation_keys": [k for k in m["violations"] if k not in known_keys],
                "inconclusive": inconclusive,
                "shards": len(outs),
                "verdict": "violated" if new_violation else ("inconclusive" if inconclusive else "held-on-observed"),
            },
            "assumptions": getattr(mod, "ASSUMPTIONS", []),
            "wall_s": round(wall, 2),
            "violations": sum(v["count"] for k, v in m["violations"].items() if k not in known_keys),
        }
        if getattr(mod, "EXHAUSTIVE", None):
            ev["coverage"]["exhaustive_subspaces"] = mod.EXHAUSTIVE
        ev["coverage"]["anchored_code_reach"] = anchored_reach(prop, m["linecov"]) if m.get("linecov") else "not measured (workers run on Python 3.11, no sys.monitoring)"
        os.makedirs(os.path.join(VERIF, "evidence"), exist_ok=True)
        with open(os.path.join(VERIF, "evidence", prop + ".json"), "w") as f:
            json.dump(ev, f, indent=1, default=repr)

    for ln in lines:
        print(ln)
    print("%s tier=%s seed=%d evaluations=%d distinct_nontrivial=%d monitors=%s wall=%.1fs" % (prop, tier, seed, m["evaluations"], distinct, json.dumps(m["monitors"], sort_keys=True), wall))
    for r in inconclusive:
        print("INCONCLUSIVE property=%s %s" % (prop, r[:1500]))
    if new_violation:
        return 1
    if inconclusive:
        return 2
    return 0


if __name__ == "__main__":
    sys.exit(main())
